//! C15 — the transposition table is a faithful bounded map (sequential semantics; DESIGN §4.10).
//! Runs the real private table types through the cfg-guarded wrapper `searcher::verif_hooks`.

use weechess_core::*;
use weechess_engine::searcher::verif_hooks::{Entry, Table};

#[cfg(replay)]
use crate::kani;

fn any_entry() -> Entry {
    let white: bool = kani::any();
    let kind: u8 = kani::any();
    let o: u8 = kani::any();
    let d: u8 = kani::any();
    let ek: u8 = kani::any();
    kani::assume(kind >= 1 && kind <= 6 && o < 64 && d < 64 && ek < 3);
    let piece = match kind {
        1 => Piece::Pawn,
        2 => Piece::Knight,
        3 => Piece::Bishop,
        4 => Piece::Rook,
        5 => Piece::Queen,
        _ => Piece::King,
    };
    let pi = PieceIndex::new(if white { Color::White } else { Color::Black }, piece);
    Entry {
        kind: ek,
        performed_move: Move::by_moving(pi, Square::try_from(o).unwrap(), Square::try_from(d).unwrap()),
        depth: kani::any::<u16>() as usize,
        max_depth: kani::any::<u16>() as usize,
        evaluation: kani::any::<i16>() as i32,
    }
}

fn occupied(t: &Table, tables: usize, buckets: usize) -> usize {
    let mut n = 0;
    let mut ti = 0;
    while ti < tables {
        let mut bi = 0;
        while bi < buckets {
            let mut i = 0;
            while i < Table::BUCKET_SIZE {
                if t.slot(ti, bi, i).is_some() {
                    n += 1;
                }
                i += 1;
            }
            bi += 1;
        }
        ti += 1;
    }
    n
}

/// C15.a — every history of at most `N` inserts, then one lookup.
fn history<const N: usize>(tables: usize, buckets: usize, tag: &str) -> (bool, usize, usize, usize) {
    let t = Table::new(tables, buckets);
    let n: usize = kani::any();
    kani::assume(n <= N);
    let mut keys = [0u64; N];
    let mut ents = [Entry { kind: 0, performed_move: Move::NULL, depth: 0, max_depth: 0, evaluation: 0 }; N];
    let mut i = 0;
    while i < N {
        if i < n {
            keys[i] = kani::any();
            ents[i] = any_entry();
            t.insert(keys[i], ents[i]);
            assert!(t.entries() <= t.max_entries(), "entry count never exceeds capacity");
        }
        i += 1;
    }
    let q: u64 = kani::any();
    println!("CASE {{\"harness\":\"{}\",\"tables\":{},\"buckets\":{},\"n\":{},\"keys\":{:?},\"query\":{}}}", tag, tables, buckets, n, &keys[..n.min(N)], q);
    let got = t.find(q);
    // ghost facts about the history
    let mut last: usize = N; // index of the last insert under key q
    let mut distinct = 0usize;
    let mut i = 0;
    while i < N {
        if i < n {
            if keys[i] == q {
                last = i;
            }
            let mut fresh = true;
            let mut j = 0;
            while j < i {
                if keys[j] == keys[i] {
                    fresh = false;
                }
                j += 1;
            }
            if fresh {
                distinct += 1;
            }
        }
        i += 1;
    }
    match got {
        Some(e) => {
            assert!(last < N, "a lookup never returns an entry for a key that was not stored");
            assert!(e == ents[last], "a lookup returns the most recent entry stored under exactly that key");
        }
        None => {
            // an entry is only ever lost to a replacement in its full bucket: that takes nine distinct keys
            assert!(last == N || distinct > Table::BUCKET_SIZE, "an inserted entry stays retrievable until its full bucket takes a replacement");
        }
    }
    let occ = occupied(&t, tables, buckets);
    assert!(t.entries() == occ, "reported entry count equals the number of occupied slots");
    assert!(occ <= distinct, "never more occupied slots than distinct keys stored");
    if distinct <= Table::BUCKET_SIZE {
        assert!(occ == distinct, "occupied slots = distinct keys while no bucket can have overflowed");
    }
    assert!(t.max_entries() == Table::BUCKET_SIZE * tables * buckets, "capacity is buckets x bucket size");
    (got.is_some(), last, n, distinct)
}

proof! {
    fn history_1x1_n10() {
        let (found, last, n, distinct) = history::<10>(1, 1, "c15 history_1x1_n10");
        kani::cover!(found && last + 1 < n, "found, with later inserts of other keys");
        kani::cover!(!found && last < 10, "an inserted key was displaced");
        kani::cover!(found && n == 10 && distinct < n, "a key was overwritten and the newer entry returned");
    }
}

proof! {
    fn history_1x1_n6() {
        let (found, last, n, distinct) = history::<6>(1, 1, "c15 history_1x1_n6");
        kani::cover!(found && last + 1 < n, "found, with later inserts of other keys");
        kani::cover!(found && last == 0 && distinct == 6, "the first of 6 distinct keys is still there");
        kani::cover!(found && n == 6 && distinct < n, "a key was overwritten and the newer entry returned");
    }
}

proof! {
    fn history_1x1_n9() {
        let (found, last, n, distinct) = history::<9>(1, 1, "c15 history_1x1_n9");
        kani::cover!(found && last + 1 < n, "found, with later inserts of other keys");
        kani::cover!(!found && last < 9, "an inserted key was displaced");
        kani::cover!(found && n == 9 && distinct < n, "a key was overwritten and the newer entry returned");
    }
}

/// Short histories over routed tables (symbolic routing through heap-allocated tables is what CBMC
/// finds hard: two inserts is the bound that fits): no displacement is possible, so every stored key
/// must be found — adversarially aligned keys included (the solver picks them).
fn routed<const N: usize>(tables: usize, buckets: usize, tag: &str) {
    let t = Table::new(tables, buckets);
    let n: usize = kani::any();
    kani::assume(n <= N);
    let mut keys = [0u64; N];
    let mut ents = [Entry { kind: 0, performed_move: Move::NULL, depth: 0, max_depth: 0, evaluation: 0 }; N];
    let mut i = 0;
    while i < N {
        if i < n {
            keys[i] = kani::any();
            ents[i] = any_entry();
            t.insert(keys[i], ents[i]);
        }
        i += 1;
    }
    let q: u64 = kani::any();
    println!("CASE {{\"harness\":\"{}\",\"tables\":{},\"buckets\":{},\"n\":{},\"keys\":{:?},\"query\":{}}}", tag, tables, buckets, n, &keys[..n.min(N)], q);
    let got = t.find(q);
    let mut last: usize = N;
    let mut distinct = 0usize;
    let mut i = 0;
    while i < N {
        if i < n {
            if keys[i] == q {
                last = i;
            }
            let mut fresh = true;
            let mut j = 0;
            while j < i {
                if keys[j] == keys[i] {
                    fresh = false;
                }
                j += 1;
            }
            if fresh {
                distinct += 1;
            }
        }
        i += 1;
    }
    match got {
        Some(e) => assert!(last < N && e == ents[last], "a lookup returns the most recent entry stored under exactly that key"),
        None => assert!(last == N, "with fewer keys than one bucket holds, every stored key is found"),
    }
    assert!(t.entries() == distinct, "entry count equals the number of distinct keys stored");
    assert!(t.entries() == occupied(&t, tables, buckets), "reported entry count equals the number of occupied slots");
    assert!(t.max_entries() == Table::BUCKET_SIZE * tables * buckets, "capacity is tables x buckets x bucket size");
    kani::cover!(got.is_some() && n == N && last == 0 && distinct == N, "first of N distinct keys still found");
    kani::cover!(got.is_none() && n == N && (keys[0] % 2 == q % 2), "a query routed like a stored key but not stored");
}

proof! {
    fn routed_2x2_n1() {
        routed::<1>(2, 2, "c15 routed_2x2_n1");
    }
}

proof! {
    fn routed_1x2_n2() {
        routed::<2>(1, 2, "c15 routed_1x2_n2");
    }
}

proof! {
    fn routed_2x1_n1() {
        routed::<1>(2, 1, "c15 routed_2x1_n1");
    }
}

proof! {
    fn routed_3x1_n1() {
        routed::<1>(3, 1, "c15 routed_3x1_n1");
    }
}

/// C15.b — one insert and one lookup from an *arbitrary* bucket satisfying the representation
/// invariant (occupied slots form a prefix, no key twice); the invariant is re-established, so the
/// statement extends to histories of any length on one bucket.
proof! {
    fn step_from_arbitrary_bucket() {
        let mut slots: [Option<(u64, Entry)>; 8] = [None; 8];
        let used: usize = kani::any();
        kani::assume(used <= 8);
        let mut i = 0;
        while i < 8 {
            if i < used {
                slots[i] = Some((kani::any(), any_entry()));
            }
            i += 1;
        }
        // no key twice
        let mut i = 0;
        while i < 8 {
            let mut j = 0;
            while j < i {
                if let (Some((a, _)), Some((b, _))) = (slots[i], slots[j]) {
                    kani::assume(a != b);
                }
                j += 1;
            }
            i += 1;
        }
        let t = Table::from_slots(slots);
        assert!(t.entries() == used, "hook builds the bucket as described");
        let k: u64 = kani::any();
        let e = any_entry();
        println!("CASE {{\"harness\":\"c15 step\",\"used\":{},\"key\":{},\"slot_keys\":{:?}}}", used, k, slots.iter().map(|s| s.map(|x| x.0)).collect::<Vec<_>>());
        let mut present = 8usize;
        let mut i = 0;
        while i < 8 {
            if let Some((a, _)) = slots[i] {
                if a == k {
                    present = i;
                }
            }
            i += 1;
        }
        t.insert(k, e);
        // the inserted entry is retrievable at once
        assert!(t.find(k) == Some(e), "an entry is retrievable right after it is stored");
        // slot-level post-state
        let mut changed = 0usize;
        let mut changed_at = 8usize;
        let mut occ = 0usize;
        let mut i = 0;
        while i < 8 {
            let now = t.slot(0, 0, i);
            if now.is_some() {
                occ += 1;
            }
            if now != slots[i] {
                changed += 1;
                changed_at = i;
            }
            i += 1;
        }
        assert!(changed <= 1, "one insert changes at most one slot");
        if present < 8 {
            assert!(changed == 0 && slots[present].unwrap().1 == e || changed_at == present, "re-storing a key overwrites its own slot");
            assert!(occ == used && t.entries() == used, "re-storing a key does not change the count");
        } else if used < 8 {
            assert!(changed_at == used && occ == used + 1 && t.entries() == used + 1, "a new key takes the first free slot and is counted once");
        } else {
            assert!(changed == 1 && occ == 8 && t.entries() == 8, "a new key in a full bucket displaces exactly one entry; the count stays at capacity");
        }
        assert!(t.entries() <= t.max_entries() && t.entries() == occ, "count equals occupied slots and never exceeds capacity");
        // every other stored key is still found with its own entry, unless it was the one displaced
        let other: usize = kani::any();
        kani::assume(other < 8);
        if let Some((ok, oe)) = slots[other] {
            if ok != k {
                let r = t.find(ok);
                if other == changed_at {
                    assert!(r.is_none(), "the displaced key is gone, not aliased");
                } else {
                    assert!(r == Some(oe), "unrelated keys keep their own entries");
                }
            }
        }
        // invariant re-established: prefix + no duplicates
        let mut i = 0;
        let mut seen_none = false;
        while i < 8 {
            let s = t.slot(0, 0, i);
            if s.is_none() {
                seen_none = true;
            } else {
                assert!(!seen_none, "occupied slots still form a prefix");
            }
            let mut j = 0;
            while j < i {
                if let (Some((a, _)), Some((b, _))) = (s, t.slot(0, 0, j)) {
                    assert!(a != b, "no key is stored twice");
                }
                j += 1;
            }
            i += 1;
        }
        // a key that is in no slot is not found
        let q: u64 = kani::any();
        let mut anywhere = false;
        let mut i = 0;
        while i < 8 {
            if let Some((a, _)) = t.slot(0, 0, i) {
                if a == q {
                    anywhere = true;
                }
            }
            i += 1;
        }
        assert!(t.find(q).is_some() == anywhere, "lookup finds exactly the keys that are stored");
        kani::cover!(used == 8 && present == 8, "full bucket takes a replacement");
        kani::cover!(present < 8 && present > 0, "overwrite of a key in a later slot");
        kani::cover!(used == 3 && present == 8, "fresh key into a partly filled bucket");
    }
}

proof! {
    fn reach_witness() {
        let t = Table::new(1, 1);
        let k: u64 = kani::any();
        t.insert(k, any_entry());
        assert!(t.find(k).is_none(), "reach witness");
    }
}

