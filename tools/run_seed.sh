#!/bin/bash
# run_seed.sh <seed dir> <property id> [extra ./check args] : apply a seeded change to /repo, run the check, undo.
set -u
SD=$1; PID=$2; shift 2
cd /verif
git -C /repo status --short | grep -q . && { echo "refusing: /repo is dirty"; exit 3; }
git -C /repo apply $SD/patch.diff || exit 3
./check $PID "$@" > $SD/check_$PID.log 2>&1
RC=$?
git -C /repo checkout -- .
echo "SEED $SD check $PID $* -> exit $RC : $(grep -c '^VIOLATION' $SD/check_$PID.log) violation line(s); $(grep '^\[done\]' $SD/check_$PID.log)"
