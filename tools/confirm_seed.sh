#!/bin/bash
# confirm_seed.sh <seed dir, e.g. /tmp/seed/C02/1> : confirm a seeded change in a scratch worktree of /repo:
#   (1) with the change the workspace compiles and the unedited suite passes (43 tests),
#   (2) the demonstration fails with the change, (3) and passes without it.
set -u
SD=$1
WT=/tmp/confirmwt_$$
DEMO=$(grep -ho "weechess-[a-z]*/tests/[A-Za-z0-9_]*\.rs" $SD/notes.md | sort -u | head -1)
PKG=$(echo $DEMO | cut -d/ -f1 | tr - _)
TNAME=$(basename $DEMO .rs)
FLAGS=""
grep -q "cfg(weechess_verif)" $SD/demo.rs && FLAGS="--cfg weechess_verif"
git -C /repo worktree add -q --detach $WT HEAD || exit 3
cd $WT
git apply $SD/patch.diff || { echo "RESULT patch does not apply"; cd /; git -C /repo worktree remove --force $WT; exit 3; }
SUITE=$(cargo test --workspace --no-fail-fast --offline 2>&1 | grep "^test result" | awk '{p+=$4; f+=$6} END {print p" passed "f" failed"}')
mkdir -p $(dirname $DEMO); cp $SD/demo.rs $DEMO
WITH=$(RUSTFLAGS="$FLAGS" cargo test --offline -p $PKG --test $TNAME 2>&1 | grep "^test result" | tail -1)
git apply -R $SD/patch.diff
WITHOUT=$(RUSTFLAGS="$FLAGS" cargo test --offline -p $PKG --test $TNAME 2>&1 | grep "^test result" | tail -1)
echo "RESULT $SD | suite with change: $SUITE | demo with change: $WITH | demo without: $WITHOUT"
cd /
git -C /repo worktree remove --force $WT
