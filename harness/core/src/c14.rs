//! C14 — malformed text never crashes the parsers (parsers only; the UCI loop is outside, DESIGN §4.9).
//! "No panic" = none of Kani's checks (overflow, bounds, unwrap, slice, char boundary) is violated on
//! any input of the stated length; termination follows from the passing unwinding assertions.

use weechess_core::notation::{try_from_notation, San};
use weechess_core::*;

#[cfg(replay)]
use crate::kani;

/// `&str` over bytes that the harness has constrained to ASCII. `std::str::from_utf8` would be correct
/// too, but its word-at-a-time validation loops are what CBMC then spends its time on (500 unwindings
/// for a 47-byte buffer) instead of the parser under test.
fn ascii_str(bytes: &[u8]) -> &str {
    unsafe { std::str::from_utf8_unchecked(bytes) }
}

fn show(tag: &str, bytes: &[u8]) {
    #[cfg(not(kani))]
    println!("CASE {{\"harness\":\"{}\",\"len\":{},\"bytes\":{:?},\"text\":{:?}}}", tag, bytes.len(), bytes, String::from_utf8_lossy(bytes));
    #[cfg(kani)]
    let _ = (tag, bytes);
}

fn san_no_panic<const N: usize>(tag: &str) {
    let bytes: [u8; N] = kani::any();
    let len: usize = kani::any();
    kani::assume(len <= N);
    show(tag, &bytes[..len]);
    if let Ok(s) = std::str::from_utf8(&bytes[..len]) {
        let r = try_from_notation::<MoveQuery, San>(s);
        kani::cover!(r.is_ok() && len == N, "a full-length string parses");
        kani::cover!(r.is_err() && len >= 2, "a string is rejected");
        kani::cover!(r.is_err() && !s.is_ascii(), "non-ASCII text reaches the parser and is rejected");
    }
}

proof! {
    fn san_any_string_le4() {
        san_no_panic::<4>("c14 san_le4");
    }
}

proof! {
    fn san_any_string_le6() {
        san_no_panic::<6>("c14 san_le6");
    }
}

proof! {
    fn san_any_string_le8() {
        san_no_panic::<8>("c14 san_le8");
    }
}

proof! {
    fn square_any_string_le4() {
        let bytes: [u8; 4] = kani::any();
        let len: usize = kani::any();
        kani::assume(len <= 4);
        show("c14 square_le4", &bytes[..len]);
        if let Ok(s) = std::str::from_utf8(&bytes[..len]) {
            let r = Square::try_from(s);
            if let Ok(q) = r {
                let i: u8 = q.into();
                // an accepted square is the one spelled (file letter in either case, rank digit)
                let f = bytes[0].to_ascii_lowercase() - b'a';
                let k = bytes[1] - b'1';
                assert!(len == 2 && i == k * 8 + f, "an accepted square text denotes that square");
            }
            kani::cover!(r.is_ok(), "a square parses");
            kani::cover!(r.is_err() && len == 2, "a two-byte text is rejected");
            kani::cover!(len == 2 && !s.is_ascii(), "one two-byte character");
        }
    }
}

const FEN_ALPHABET: &[u8; 21] = b"rnbqkpRNBQKP12345678/";

/// The code behind the regex gate on every placement field the gate can pass: alphabet of regex
/// group 1, exactly seven '/', no empty segment. `N` bytes.
fn fen_placement<const N: usize>(tag: &str) {
    let bytes: [u8; N] = kani::any();
    let len: usize = kani::any();
    kani::assume(len >= 15 && len <= N);
    let mut slashes = 0u32;
    let mut prev_slash = true; // an empty first segment is not allowed
    let mut ok = true;
    let mut i = 0;
    while i < N {
        if i < len {
            let b = bytes[i];
            let is_slash = b == b'/';
            let is_piece_or_digit = matches!(b, b'r' | b'n' | b'b' | b'q' | b'k' | b'p' | b'R' | b'N' | b'B' | b'Q' | b'K' | b'P' | b'1'..=b'8');
            ok = ok && (is_slash || is_piece_or_digit);
            if is_slash {
                ok = ok && !prev_slash;
                slashes += 1;
            }
            prev_slash = is_slash;
        }
        i += 1;
    }
    kani::assume(ok && slashes == 7 && !prev_slash);
    show(tag, &bytes[..len]);
    let s = ascii_str(&bytes[..len]);
    let r = weechess_core::notation::verif_board_try_parse(s);
    kani::cover!(r.is_ok(), "a placement field parses");
    kani::cover!(r.is_err(), "a placement field is rejected");
}

proof! {
    fn fen_placement_le24() {
        fen_placement::<24>("c14 fen_placement_le24");
    }
}

proof! {
    fn fen_placement_le48() {
        fen_placement::<48>("c14 fen_placement_le48");
    }
}

/// A concrete flood of `P` eights followed by every symbolic tail of exactly `T` bytes over the regex
/// alphabet (seven '/', no empty segment; `N = P + T`): the empty-square counter stands at 8*P when the
/// symbolic part begins, so with P = 31 the next digit decides whether the `u8` cursor passes 255. The
/// concrete prefix costs almost nothing to execute symbolically; the tail is fully symbolic and the
/// total length is concrete (a symbolic length triples the cost).
fn fen_placement_after_flood<const P: usize, const T: usize, const N: usize>(tag: &str) {
    let tail: [u8; T] = kani::any();
    let mut bytes = [b'8'; N];
    let mut slashes = 0u32;
    let mut prev_slash = P == 0; // with an empty prefix the first segment must not be empty
    let mut ok = true;
    let mut i = 0;
    while i < T {
        let b = tail[i];
        let is_slash = b == b'/';
        let is_piece_or_digit = matches!(b, b'r' | b'n' | b'b' | b'q' | b'k' | b'p' | b'R' | b'N' | b'B' | b'Q' | b'K' | b'P' | b'1'..=b'8');
        ok = ok && (is_slash || is_piece_or_digit);
        if is_slash {
            ok = ok && !prev_slash;
            slashes += 1;
        }
        prev_slash = is_slash;
        bytes[P + i] = b;
        i += 1;
    }
    kani::assume(ok && slashes == 7 && !prev_slash);
    show(tag, &bytes[..]);
    let s = ascii_str(&bytes[..]);
    let r = weechess_core::notation::verif_board_try_parse(s);
    kani::cover!(r.is_err(), "an over-long placement is rejected");
}

proof! {
    fn fen_placement_flood31_tail15() {
        fen_placement_after_flood::<31, 15, 46>("c14 fen_placement_flood31_tail15");
    }
}

proof! {
    fn fen_placement_flood31_tail16() {
        fen_placement_after_flood::<31, 16, 47>("c14 fen_placement_flood31_tail16");
    }
}

proof! {
    fn fen_placement_flood7_tail18() {
        fen_placement_after_flood::<7, 18, 25>("c14 fen_placement_flood7_tail18");
    }
}

/// Digit floods: a placement field whose first rank segment is a run of 40 digits, followed by seven
/// one-digit segments (54 bytes, every digit symbolic in 1..=8) — long enough for the empty-square
/// counter to pass 255. The slash positions are fixed so that the solver's work goes into the digits.
proof! {
    fn fen_placement_digit_flood() {
        let digits: [u8; 47] = kani::any();
        let mut bytes = [b'/'; 54];
        let mut i = 0;
        while i < 47 {
            kani::assume(digits[i] >= 1 && digits[i] <= 8);
            // positions 0..40 are the run; then "/d" seven times
            let pos = if i < 40 { i } else { 40 + 2 * (i - 40) + 1 };
            bytes[pos] = b'0' + digits[i];
            i += 1;
        }
        show("c14 fen_placement_digit_flood", &bytes[..]);
        let s = ascii_str(&bytes[..]);
        let r = weechess_core::notation::verif_board_try_parse(s);
        kani::cover!(r.is_ok(), "a digit flood is accepted as an (over-long) placement");
    }
}

proof! {
    fn fen_castle_field() {
        let bytes: [u8; 4] = kani::any();
        let len: usize = kani::any();
        kani::assume(len >= 1 && len <= 4);
        // regex group: (-|([K|Q|k|q]{1,4})) — note the class also admits '|'
        let mut i = 0;
        while i < 4 {
            if i < len {
                kani::assume(matches!(bytes[i], b'K' | b'Q' | b'k' | b'q' | b'|'));
            }
            i += 1;
        }
        show("c14 fen_castle_field", &bytes[..len]);
        let s = std::str::from_utf8(&bytes[..len]).unwrap();
        let r = weechess_core::notation::verif_castle_try_parse(s);
        if let Ok(ref m) = r {
            let has = |c: u8| bytes[..len].iter().any(|b| *b == c);
            assert!(m[Color::White].kingside == has(b'K') && m[Color::White].queenside == has(b'Q')
                && m[Color::Black].kingside == has(b'k') && m[Color::Black].queenside == has(b'q'),
                "castling letters map to exactly their rights");
        }
        kani::cover!(r.is_ok(), "a castling field parses");
        kani::cover!(r.is_err(), "a castling field with '|' is rejected");
    }
}

proof! {
    fn reach_witness() {
        let bytes: [u8; 4] = kani::any();
        if let Ok(s) = std::str::from_utf8(&bytes[..]) {
            let r = try_from_notation::<MoveQuery, San>(s);
            assert!(r.is_err(), "reach witness");
        }
    }
}
