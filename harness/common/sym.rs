//! Symbolic positions and the bridge between the oracle's plain `Pos` and the repository's types
//! (DESIGN §3.3). Loop-free.

use crate::geo::*;
use crate::rules::*;
use weechess_core::utils::ArrayMap;
use weechess_core::*;

#[cfg(replay)]
use crate::kani;

pub fn color_of(c: usize) -> Color {
    if c == 0 {
        Color::White
    } else {
        Color::Black
    }
}

pub fn piece_of(k: u8) -> Piece {
    match k {
        1 => Piece::Pawn,
        2 => Piece::Knight,
        3 => Piece::Bishop,
        4 => Piece::Rook,
        5 => Piece::Queen,
        6 => Piece::King,
        _ => Piece::None,
    }
}

pub fn kind_no(p: Piece) -> u8 {
    match p {
        Piece::None => 0,
        Piece::Pawn => 1,
        Piece::Knight => 2,
        Piece::Bishop => 3,
        Piece::Rook => 4,
        Piece::Queen => 5,
        Piece::King => 6,
    }
}

pub fn sq(i: u8) -> Square {
    Square::try_from(i).unwrap()
}

pub fn sq_no(s: Square) -> u8 {
    s.into()
}

pub fn pi(c: usize, k: u8) -> PieceIndex {
    PieceIndex::new(color_of(c), piece_of(k))
}

pub fn piece_map(bb: &[[u64; 6]; 2]) -> ArrayMap<PieceIndex, BitBoard> {
    let mut map: ArrayMap<PieceIndex, BitBoard> = ArrayMap::default();
    map[pi(0, 1)] = BitBoard::new(bb[0][0]);
    map[pi(0, 2)] = BitBoard::new(bb[0][1]);
    map[pi(0, 3)] = BitBoard::new(bb[0][2]);
    map[pi(0, 4)] = BitBoard::new(bb[0][3]);
    map[pi(0, 5)] = BitBoard::new(bb[0][4]);
    map[pi(0, 6)] = BitBoard::new(bb[0][5]);
    map[pi(1, 1)] = BitBoard::new(bb[1][0]);
    map[pi(1, 2)] = BitBoard::new(bb[1][1]);
    map[pi(1, 3)] = BitBoard::new(bb[1][2]);
    map[pi(1, 4)] = BitBoard::new(bb[1][3]);
    map[pi(1, 5)] = BitBoard::new(bb[1][4]);
    map[pi(1, 6)] = BitBoard::new(bb[1][5]);
    map
}

pub fn to_board(bb: &[[u64; 6]; 2]) -> Board {
    Board::new(piece_map(bb))
}

pub fn to_state(p: &Pos) -> State {
    State::new(
        to_board(&p.bb),
        if p.wtm { Color::White } else { Color::Black },
        ArrayMap::new([
            CastleRights { kingside: p.rights[0], queenside: p.rights[1] },
            CastleRights { kingside: p.rights[2], queenside: p.rights[3] },
        ]),
        if p.ep == NO_SQ { None } else { Some(sq(p.ep)) },
        Clock { halfmove_clock: p.half as usize, fullmove_number: p.full as usize },
    )
}

pub fn board_bb(b: &Board) -> [[u64; 6]; 2] {
    let g = |c: usize, k: u8| -> u64 { b.piece_occupancy(pi(c, k)).into() };
    [
        [g(0, 1), g(0, 2), g(0, 3), g(0, 4), g(0, 5), g(0, 6)],
        [g(1, 1), g(1, 2), g(1, 3), g(1, 4), g(1, 5), g(1, 6)],
    ]
}

pub fn from_state(s: &State) -> Pos {
    let w = s.castle_rights(Color::White);
    let b = s.castle_rights(Color::Black);
    Pos {
        bb: board_bb(s.board()),
        wtm: s.turn_to_move() == Color::White,
        rights: [w.kingside, w.queenside, b.kingside, b.queenside],
        ep: s.en_passant_target().map(sq_no).unwrap_or(NO_SQ),
        half: s.clock().halfmove_clock as u64,
        full: s.clock().fullmove_number as u64,
    }
}

/// Stray bits in the "none" slots of the repository's piece map (indices 0 and 8) would be a bug too.
pub fn none_slots_empty(s: &State) -> bool {
    let a: u64 = s.board().piece_occupancy(PieceIndex::new(Color::White, Piece::None)).into();
    let b: u64 = s.board().piece_occupancy(PieceIndex::new(Color::Black, Piece::None)).into();
    a == 0 && b == 0
}

/// The canonical move value for coordinates `m` in position `p`, built with the real constructors.
pub fn build_move(p: &Pos, m: Mv) -> Move {
    let us = p.us();
    let k = p.kind_at(us, m.from);
    let cs = castle_side_of(p, m);
    let piece = pi(us, k);
    if cs != 0 {
        return Move::by_castling(color_of(us), if cs == 1 { Side::King } else { Side::Queen });
    }
    if is_ep_capture(p, m) {
        return Move::by_en_passant(piece, sq(m.from), sq(m.to));
    }
    let cap = p.kind_at(1 - us, m.to);
    match (cap != 0, m.promo != 0) {
        (false, false) => Move::by_moving(piece, sq(m.from), sq(m.to)),
        (true, false) => Move::by_capturing(piece, sq(m.from), sq(m.to), piece_of(cap)),
        (false, true) => Move::by_promoting(piece, sq(m.from), sq(m.to), piece_of(m.promo)),
        (true, true) => Move::by_capture_promoting(piece, sq(m.from), sq(m.to), piece_of(cap), piece_of(m.promo)),
    }
}

/// Coordinates of a move value.
pub fn mv_of(m: &Move) -> Mv {
    Mv { from: sq_no(m.origin()), to: sq_no(m.destination()), promo: m.promotion().map(kind_no).unwrap_or(0) }
}

/// Attributes reported by a move value, same layout as `rules::attrs_ref`.
pub fn attrs_of(m: &Move) -> (bool, u8, u8, u8, u8, u8, bool, u8, bool) {
    (
        m.color() == Color::White,
        kind_no(m.piece()),
        sq_no(m.origin()),
        sq_no(m.destination()),
        m.capture().map(kind_no).unwrap_or(0),
        m.promotion().map(kind_no).unwrap_or(0),
        m.is_en_passant(),
        match m.castle_side() {
            None => 0,
            Some(Side::King) => 1,
            Some(Side::Queen) => 2,
        },
        m.is_double_pawn(),
    )
}

// ---- symbolic builders ----------------------------------------------------------------------------

/// Twelve free bitboards: pairwise disjoint, one king per colour, no pawn on ranks 1/8. No piece bound.
pub fn any_bb() -> [[u64; 6]; 2] {
    let bb: [[u64; 6]; 2] = [
        [kani::any(), kani::any(), kani::any(), kani::any(), kani::any(), kani::any()],
        [kani::any(), kani::any(), kani::any(), kani::any(), kani::any(), kani::any()],
    ];
    let p = Pos { bb, wtm: true, rights: [false; 4], ep: NO_SQ, half: 0, full: 1 };
    kani::assume(structure_ok(&p));
    bb
}

/// At most `u` men per kind for colour `c` (kings are always exactly one).
pub fn bound_per_kind(bb: &[[u64; 6]; 2], c: usize, u: u32) {
    kani::assume(bb[c][0].count_ones() <= u);
    kani::assume(bb[c][1].count_ones() <= u);
    kani::assume(bb[c][2].count_ones() <= u);
    kani::assume(bb[c][3].count_ones() <= u);
    kani::assume(bb[c][4].count_ones() <= u);
}

/// Symbolic side, rights, ep and clocks around a given placement, constrained to a legal position.
pub fn any_pos_around(bb: [[u64; 6]; 2], wtm: bool) -> Pos {
    let p = Pos {
        bb,
        wtm,
        rights: [kani::any(), kani::any(), kani::any(), kani::any()],
        ep: kani::any(),
        half: kani::any::<u32>() as u64,
        full: kani::any::<u32>() as u64,
    };
    kani::assume(p.ep <= 64);
    kani::assume(rights_ok(&p));
    kani::assume(ep_ok(&p));
    p
}

/// Kings plus a fixed list of men (colour, kind); squares, castling rights and ep target symbolic.
pub fn family(wtm: bool, men: &[(usize, u8)], with_rights: bool, with_ep: bool, tag: &str) -> Pos {
    let mut bb = [[0u64; 6]; 2];
    let wk: u8 = kani::any();
    let bk: u8 = kani::any();
    kani::assume(wk < 64 && bk < 64 && wk != bk);
    bb[0][K] = bit(wk);
    bb[1][K] = bit(bk);
    let mut occ = bit(wk) | bit(bk);
    let mut i = 0;
    while i < men.len() {
        let s: u8 = kani::any();
        kani::assume(s < 64 && occ & bit(s) == 0);
        occ |= bit(s);
        let (c, k) = men[i];
        if k == 1 {
            kani::assume(s >= 8 && s < 56);
        }
        bb[c][(k - 1) as usize] |= bit(s);
        i += 1;
    }
    let mut p = Pos { bb, wtm, rights: [false; 4], ep: NO_SQ, half: 0, full: 1 };
    if with_rights {
        p.rights = [kani::any(), kani::any(), kani::any(), kani::any()];
    }
    if with_ep {
        p.ep = kani::any();
        kani::assume(p.ep <= 64);
    }
    kani::assume(legal_position(&p));
    print_pos(tag, &p);
    p
}

/// Like `family`, but with both kings on given concrete squares (quick-tier slices: the men under test
/// keep symbolic squares, king moves and king-related attack sets become cheap).
pub fn family_kings_at(wtm: bool, wk: u8, bk: u8, men: &[(usize, u8)], with_ep: bool, tag: &str) -> Pos {
    let mut bb = [[0u64; 6]; 2];
    bb[0][K] = bit(wk);
    bb[1][K] = bit(bk);
    let mut occ = bit(wk) | bit(bk);
    let mut i = 0;
    while i < men.len() {
        let s: u8 = kani::any();
        kani::assume(s < 64 && occ & bit(s) == 0);
        occ |= bit(s);
        let (c, k) = men[i];
        if k == 1 {
            kani::assume(s >= 8 && s < 56);
        }
        bb[c][(k - 1) as usize] |= bit(s);
        i += 1;
    }
    let mut p = Pos { bb, wtm, rights: [false; 4], ep: NO_SQ, half: 0, full: 1 };
    if with_ep {
        p.ep = kani::any();
        kani::assume(p.ep <= 64);
    }
    kani::assume(legal_position(&p));
    print_pos(tag, &p);
    p
}

/// Castling family: the mover's king and both rooks stand on their home squares (concrete), castling
/// rights of the mover are symbolic, the opposing king and the opposing men of `opp` (kinds) stand on
/// symbolic squares.
pub fn castle_family(wtm: bool, opp: &[u8], tag: &str) -> Pos {
    let us = if wtm { 0 } else { 1 };
    let them = 1 - us;
    let base: u8 = if wtm { 0 } else { 56 };
    let mut bb = [[0u64; 6]; 2];
    bb[us][K] = bit(base + 4);
    bb[us][R] = bit(base) | bit(base + 7);
    let mut occ = bb[us][K] | bb[us][R];
    let ek: u8 = kani::any();
    kani::assume(ek < 64 && occ & bit(ek) == 0);
    bb[them][K] = bit(ek);
    occ |= bit(ek);
    let mut i = 0;
    while i < opp.len() {
        let s: u8 = kani::any();
        kani::assume(s < 64 && occ & bit(s) == 0);
        if opp[i] == 1 {
            kani::assume(s >= 8 && s < 56);
        }
        occ |= bit(s);
        bb[them][(opp[i] - 1) as usize] |= bit(s);
        i += 1;
    }
    let mut p = Pos { bb, wtm, rights: [false; 4], ep: NO_SQ, half: 0, full: 1 };
    p.rights[2 * us] = kani::any();
    p.rights[2 * us + 1] = kani::any();
    kani::assume(legal_position(&p));
    print_pos(tag, &p);
    p
}

pub fn any_mv() -> Mv {
    let m = Mv { from: kani::any(), to: kani::any(), promo: kani::any() };
    kani::assume(m.from < 64 && m.to < 64 && m.promo <= 5 && m.promo != 1);
    m
}

pub fn print_pos(tag: &str, p: &Pos) {
    println!(
        "CASE {{\"harness\":\"{}\",\"fen\":\"{}\",\"wtm\":{},\"rights\":[{},{},{},{}],\"ep\":{},\"half\":{},\"full\":{}}}",
        tag,
        fen_of(p),
        p.wtm,
        p.rights[0],
        p.rights[1],
        p.rights[2],
        p.rights[3],
        p.ep,
        p.half,
        p.full
    );
}

pub fn print_mv(tag: &str, m: Mv) {
    println!("CASE {{\"harness\":\"{}\",\"from\":{},\"to\":{},\"promo\":{}}}", tag, m.from, m.to, m.promo);
}

/// FEN of an oracle position (replay output only; loops are fine natively and never reached under Kani
/// because `println!` arguments are not formatted there — keep calls inside `println!`-only helpers).
pub fn fen_of(p: &Pos) -> String {
    #[cfg(kani)]
    {
        let _ = p;
        return String::new();
    }
    #[cfg(not(kani))]
    {
        let mut s = String::new();
        for r in (0..8).rev() {
            let mut empty = 0;
            for f in 0..8 {
                let q = (r * 8 + f) as u8;
                let (w, b) = (p.kind_at(0, q), p.kind_at(1, q));
                let ch = if w != 0 { b" PNBRQK"[w as usize] as char } else if b != 0 { b" pnbrqk"[b as usize] as char } else { ' ' };
                if ch == ' ' {
                    empty += 1;
                } else {
                    if empty > 0 {
                        s.push_str(&empty.to_string());
                        empty = 0;
                    }
                    s.push(ch);
                }
            }
            if empty > 0 {
                s.push_str(&empty.to_string());
            }
            if r > 0 {
                s.push('/');
            }
        }
        s.push(' ');
        s.push(if p.wtm { 'w' } else { 'b' });
        s.push(' ');
        let mut any = false;
        for (i, c) in "KQkq".chars().enumerate() {
            if p.rights[i] {
                s.push(c);
                any = true;
            }
        }
        if !any {
            s.push('-');
        }
        s.push(' ');
        if p.ep == NO_SQ {
            s.push('-');
        } else {
            s.push((b'a' + p.ep % 8) as char);
            s.push((b'1' + p.ep / 8) as char);
        }
        s.push_str(&format!(" {} {}", p.half, p.full));
        s
    }
}
