#!/usr/bin/env python3
"""Fold the logs of the seeded-change runs (seeded/results/run*.log, MAP.txt) into seeded/<id>/meta.json and
print the markdown table used in DESIGN.md §12."""
import json, os, re, sys
ROOT = os.path.dirname(os.path.dirname(os.path.abspath(__file__)))
res = os.path.join(ROOT, "seeded", "results")
rows = []
for line in open(os.path.join(res, "MAP.txt")):
    parts = line.split()
    if len(parts) < 2:
        continue
    run, seed = parts[0], parts[1]
    if seed.startswith("THOROUGH"):
        continue
    how = " ".join(parts[2:]) or "vp run --with-repo (patch applied to the run's snapshot of /repo), quick tier"
    lf = os.path.join(res, run + ".log")
    if not os.path.exists(lf):
        continue
    log = open(lf, errors="replace").read()
    done = re.findall(r"^\[done\] (\S+) tier=(\S+): (\d+) instances, (\d+) discharged, (\d+) violations, (\d+) known, (\d+) inconclusive, (\d+)s -> exit (\d+)", log, re.M)
    viol = re.findall(r"^VIOLATION property=(\S+) replay=\S*?([A-Za-z0-9_]+)\.json", log, re.M)
    fails = re.findall(r"^\[cbmc\] (\S+)\s+FAIL\s+[\d.]+s\s+(.*)$", log, re.M)
    fails = [(h, (("panic at " + m.rsplit(" at ", 1)[-1].split("/")[-1]) if "placeholder message" in m else re.sub(r" at \S+$", "", m))[:110])
             for h, m in fails if "reach witness" not in m]
    native = sorted(set(re.findall(r"native (dev|release): (\w+)", log)))
    d = done[-1] if done else None
    entry = {"check": (d[0] + " " + d[1]) if d else "?", "how": how, "exit": int(d[8]) if d else None,
             "violation_lines": len(viol), "failing_harnesses": [h for h, _ in fails], "first_failure": fails[0][1] if fails else "",
             "native_replay": ["%s:%s" % n for n in native], "wall_s": int(d[7]) if d else None, "log": "seeded/results/%s.log" % run}
    mp = os.path.join(ROOT, "seeded", seed, "meta.json")
    if os.path.exists(mp):
        m = json.load(open(mp))
        m["checks_run"] = [c for c in m.get("checks_run", []) if c.get("log") != entry["log"]] + [entry]
        json.dump(m, open(mp, "w"), indent=1)
        needs = m.get("needs_to_manifest", "")
    else:
        needs = ""
    rows.append((seed, needs, entry))
print("| seeded change | needs, to manifest | check run | result | caught by (harness: assertion) |")
print("|---|---|---|---|---|")
for seed, needs, e in sorted(rows, key=lambda r: (r[0], r[2]["log"])):
    if e["exit"] == 1:
        verdict = "**caught** (exit 1, %d VIOLATION)" % e["violation_lines"]
    elif e["exit"] == 0:
        verdict = "missed (exit 0)"
    elif e["exit"] is None and e["violation_lines"]:
        verdict = "**caught** (%d VIOLATION line printed; run stopped before the other instances finished)" % e["violation_lines"]
    else:
        verdict = "inconclusive (exit %s)" % e["exit"]
    by = "; ".join(sorted(set(h.split("::", 1)[1] for h in e["failing_harnesses"])))[:120]
    chk = e["check"].replace(" ", " --tier ") if e["check"] != "?" else seed.split("-")[0] + " --tier quick"
    print("| %s | %s | `./check %s` %ss | %s | %s: %s |" % (seed, needs[:150], chk, e["wall_s"] if e["wall_s"] is not None else "–", verdict, by, e["first_failure"]))
