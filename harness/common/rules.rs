//! The rules of chess as a reference, written on plain integers and sharing no code with /repo
//! (DESIGN §3.4). Everything is loop-free so that unwinding budgets are spent on repository loops only.
//!
//! Squares: a1 = 0 .. h8 = 63. Colours: 0 = White, 1 = Black. Kinds: 1 P, 2 N, 3 B, 4 R, 5 Q, 6 K.

use crate::geo::*;

pub const NO_SQ: u8 = 64;
pub const P: usize = 0;
pub const N: usize = 1;
pub const B: usize = 2;
pub const R: usize = 3;
pub const Q: usize = 4;
pub const K: usize = 5;

#[derive(Clone, Copy, PartialEq, Eq, Debug)]
pub struct Pos {
    /// bb[colour][kind - 1]
    pub bb: [[u64; 6]; 2],
    pub wtm: bool,
    /// white king side, white queen side, black king side, black queen side
    pub rights: [bool; 4],
    /// en-passant target square or NO_SQ
    pub ep: u8,
    pub half: u64,
    pub full: u64,
}

/// A move as the coordinates a player would give: origin, destination, promotion kind (0 = none).
#[derive(Clone, Copy, PartialEq, Eq, Debug)]
pub struct Mv {
    pub from: u8,
    pub to: u8,
    pub promo: u8,
}

/// Field-wise equality (the derived `==` on the nested arrays is a 96-byte memcmp loop that would need
/// its own unwinding bound in every harness).
pub fn same_bb(a: &[[u64; 6]; 2], b: &[[u64; 6]; 2]) -> bool {
    a[0][0] == b[0][0] && a[0][1] == b[0][1] && a[0][2] == b[0][2] && a[0][3] == b[0][3] && a[0][4] == b[0][4] && a[0][5] == b[0][5]
        && a[1][0] == b[1][0] && a[1][1] == b[1][1] && a[1][2] == b[1][2] && a[1][3] == b[1][3] && a[1][4] == b[1][4] && a[1][5] == b[1][5]
}

pub fn same_pos(a: &Pos, b: &Pos) -> bool {
    same_bb(&a.bb, &b.bb)
        && a.wtm == b.wtm
        && a.rights[0] == b.rights[0] && a.rights[1] == b.rights[1] && a.rights[2] == b.rights[2] && a.rights[3] == b.rights[3]
        && a.ep == b.ep && a.half == b.half && a.full == b.full
}

#[inline(always)]
pub fn occ_of(bb: &[[u64; 6]; 2], c: usize) -> u64 {
    bb[c][0] | bb[c][1] | bb[c][2] | bb[c][3] | bb[c][4] | bb[c][5]
}

#[inline(always)]
pub fn kind_on(bb: &[[u64; 6]; 2], c: usize, sq: u8) -> u8 {
    let b = bit(sq);
    if bb[c][0] & b != 0 {
        1
    } else if bb[c][1] & b != 0 {
        2
    } else if bb[c][2] & b != 0 {
        3
    } else if bb[c][3] & b != 0 {
        4
    } else if bb[c][4] & b != 0 {
        5
    } else if bb[c][5] & b != 0 {
        6
    } else {
        0
    }
}

impl Pos {
    #[inline(always)]
    pub fn us(&self) -> usize {
        if self.wtm {
            0
        } else {
            1
        }
    }
    #[inline(always)]
    pub fn them(&self) -> usize {
        1 - self.us()
    }
    #[inline(always)]
    pub fn occ_c(&self, c: usize) -> u64 {
        occ_of(&self.bb, c)
    }
    #[inline(always)]
    pub fn occ(&self) -> u64 {
        self.occ_c(0) | self.occ_c(1)
    }
    #[inline(always)]
    pub fn kind_at(&self, c: usize, sq: u8) -> u8 {
        kind_on(&self.bb, c, sq)
    }
    #[inline(always)]
    pub fn king_sq(&self, c: usize) -> u8 {
        self.bb[c][K].trailing_zeros() as u8
    }
}

/// Square-centric attack test: is square `t` attacked by a man of colour `by`? Walk the rays *from t*
/// until they meet a rook/queen resp. bishop/queen; look for a knight, king or pawn on the pattern
/// squares around `t`. (The repository unions piece-centric attack sets; the two formulations agree
/// only if both are right.)
pub fn attacked_ref(bb: &[[u64; 6]; 2], by: usize, t: u8) -> bool {
    let occ = occ_of(bb, 0) | occ_of(bb, 1);
    let m = &bb[by];
    (geo_rook(t, occ) & (m[R] | m[Q])) != 0
        || (geo_bishop(t, occ) & (m[B] | m[Q])) != 0
        || (geo_knight(t) & m[N]) != 0
        || (geo_king(t) & m[K]) != 0
        // a pawn of colour `by` attacks t iff it stands where a pawn of the *other* colour on t would attack
        || (geo_pawn(t, by == 1) & m[P]) != 0
}

/// Set of squares attacked by pawns of colour `by`.
pub fn pawn_attacked_ref(bb: &[[u64; 6]; 2], by: usize, t: u8) -> bool {
    (geo_pawn(t, by == 1) & bb[by][P]) != 0
}

/// The position invariant of legal chess positions (DESIGN §4.2 C02.b).
pub fn structure_ok(p: &Pos) -> bool {
    let b = &p.bb;
    // pairwise disjoint
    let mut acc = 0u64;
    let mut ok = true;
    macro_rules! dis {
        ($x:expr) => {
            ok = ok && (acc & $x) == 0;
            acc |= $x;
        };
    }
    dis!(b[0][0]);
    dis!(b[0][1]);
    dis!(b[0][2]);
    dis!(b[0][3]);
    dis!(b[0][4]);
    dis!(b[0][5]);
    dis!(b[1][0]);
    dis!(b[1][1]);
    dis!(b[1][2]);
    dis!(b[1][3]);
    dis!(b[1][4]);
    dis!(b[1][5]);
    let _ = acc;
    ok && b[0][K].count_ones() == 1
        && b[1][K].count_ones() == 1
        && (b[0][P] | b[1][P]) & (RANK_1 | RANK_8) == 0
}

pub fn rights_ok(p: &Pos) -> bool {
    let b = &p.bb;
    (!p.rights[0] || (b[0][K] & bit(4) != 0 && b[0][R] & bit(7) != 0))
        && (!p.rights[1] || (b[0][K] & bit(4) != 0 && b[0][R] & bit(0) != 0))
        && (!p.rights[2] || (b[1][K] & bit(60) != 0 && b[1][R] & bit(63) != 0))
        && (!p.rights[3] || (b[1][K] & bit(60) != 0 && b[1][R] & bit(56) != 0))
}

/// En-passant target only behind an enemy pawn that may just have double-stepped.
pub fn ep_ok(p: &Pos) -> bool {
    if p.ep == NO_SQ {
        return true;
    }
    if p.ep > 63 {
        return false;
    }
    let occ = p.occ();
    let t = bit(p.ep);
    if p.wtm {
        // Black just played x7-x5: target on rank 6, black pawn on rank 5, x6 and x7 empty
        t & RANK_6 != 0 && (p.bb[1][P] & (t >> 8)) != 0 && occ & t == 0 && occ & (t << 8) == 0
    } else {
        t & RANK_3 != 0 && (p.bb[0][P] & (t << 8)) != 0 && occ & t == 0 && occ & (t >> 8) == 0
    }
}

/// Legal position: structure, rights and ep consistent, side not on move not in check.
pub fn legal_position(p: &Pos) -> bool {
    structure_ok(p) && rights_ok(p) && ep_ok(p) && !attacked_ref(&p.bb, p.us(), p.king_sq(p.them()))
}

fn last_rank(white: bool) -> u64 {
    if white {
        RANK_8
    } else {
        RANK_1
    }
}

/// 0 = not a castling move, 1 = king side, 2 = queen side (decided by coordinates and mover).
pub fn castle_side_of(p: &Pos, m: Mv) -> u8 {
    let us = p.us();
    let home: u8 = if us == 0 { 4 } else { 60 };
    if p.kind_at(us, m.from) == 6 && m.from == home {
        if m.to == home + 2 {
            return 1;
        }
        if m.to == home - 2 {
            return 2;
        }
    }
    0
}

pub fn is_ep_capture(p: &Pos, m: Mv) -> bool {
    p.kind_at(p.us(), m.from) == 1 && p.ep != NO_SQ && m.to == p.ep && (m.from % 8) != (m.to % 8)
}

/// Movement rules of the piece on `from`, ignoring whether the own king is left in check.
/// Castling: right present, squares between king and rook empty, king not in check and not passing
/// over an attacked square (the destination is covered by the king-safety test of `legal_ref`).
pub fn fide_pseudo(p: &Pos, m: Mv) -> bool {
    if m.from > 63 || m.to > 63 {
        return false;
    }
    let us = p.us();
    let them = 1 - us;
    let white = us == 0;
    let k = p.kind_at(us, m.from);
    if k == 0 {
        return false;
    }
    let own = p.occ_c(us);
    let opp = p.occ_c(them);
    let occ = own | opp;
    let to = bit(m.to);
    if to & own != 0 {
        return false;
    }
    match k {
        2 => m.promo == 0 && geo_knight(m.from) & to != 0,
        3 => m.promo == 0 && geo_bishop(m.from, occ) & to != 0,
        4 => m.promo == 0 && geo_rook(m.from, occ) & to != 0,
        5 => m.promo == 0 && geo_queen(m.from, occ) & to != 0,
        6 => {
            if m.promo != 0 {
                return false;
            }
            if geo_king(m.from) & to != 0 {
                return true;
            }
            let home: u8 = if white { 4 } else { 60 };
            let cs = castle_side_of(p, m);
            if cs == 1 {
                p.rights[if white { 0 } else { 2 }]
                    && occ & (bit(home + 1) | bit(home + 2)) == 0
                    && !attacked_ref(&p.bb, them, home)
                    && !attacked_ref(&p.bb, them, home + 1)
            } else if cs == 2 {
                p.rights[if white { 1 } else { 3 }]
                    && occ & (bit(home - 1) | bit(home - 2) | bit(home - 3)) == 0
                    && !attacked_ref(&p.bb, them, home)
                    && !attacked_ref(&p.bb, them, home - 1)
            } else {
                false
            }
        }
        _ => {
            // pawn
            let from = bit(m.from);
            let promoting = to & last_rank(white) != 0;
            if promoting != (m.promo != 0) {
                return false;
            }
            if m.promo != 0 && !(m.promo >= 2 && m.promo <= 5) {
                return false;
            }
            let one = if white { from << 8 } else { from >> 8 };
            let two = if white { from << 16 } else { from >> 16 };
            let home = if white { RANK_2 } else { RANK_7 };
            let push = to == one && occ & one == 0;
            let dbl = from & home != 0 && to == two && occ & one == 0 && occ & two == 0;
            let cap = geo_pawn(m.from, white) & to != 0 && (opp & to != 0 || (p.ep != NO_SQ && m.to == p.ep));
            push || dbl || cap
        }
    }
}

/// The position after the move, by the rules (capture, en-passant victim, castling rook, promotion,
/// rights, en-passant target, clocks). Only meaningful for `fide_pseudo` moves.
pub fn apply_ref(p: &Pos, m: Mv) -> Pos {
    let us = p.us();
    let them = 1 - us;
    let white = us == 0;
    let k = p.kind_at(us, m.from) as usize; // 1..6
    let ki = if k == 0 { 0 } else { k - 1 };
    let from = bit(m.from);
    let to = bit(m.to);
    let mut n = *p;
    let captured = p.kind_at(them, m.to);
    let ep_capture = is_ep_capture(p, m);
    // lift the mover, drop whatever stands on the destination
    n.bb[us][ki] &= !from;
    n.bb[them][0] &= !to;
    n.bb[them][1] &= !to;
    n.bb[them][2] &= !to;
    n.bb[them][3] &= !to;
    n.bb[them][4] &= !to;
    n.bb[them][5] &= !to;
    if ep_capture {
        let victim = if white { to >> 8 } else { to << 8 };
        n.bb[them][P] &= !victim;
    }
    // put down the mover or the promoted piece
    let landed = if m.promo >= 2 && m.promo <= 5 { m.promo as usize - 1 } else { ki };
    n.bb[us][landed] |= to;
    // castling rook
    let cs = castle_side_of(p, m);
    let rank0: u8 = if white { 0 } else { 56 };
    if cs == 1 {
        n.bb[us][R] &= !bit(rank0 + 7);
        n.bb[us][R] |= bit(rank0 + 5);
    } else if cs == 2 {
        n.bb[us][R] &= !bit(rank0);
        n.bb[us][R] |= bit(rank0 + 3);
    }
    // rights: lost when the king moves, when a rook leaves its corner or is captured there
    if k == 6 {
        n.rights[2 * us] = false;
        n.rights[2 * us + 1] = false;
    }
    let touched = from | to;
    if touched & bit(7) != 0 {
        n.rights[0] = false;
    }
    if touched & bit(0) != 0 {
        n.rights[1] = false;
    }
    if touched & bit(63) != 0 {
        n.rights[2] = false;
    }
    if touched & bit(56) != 0 {
        n.rights[3] = false;
    }
    // en-passant target exactly after a double pawn step
    let two = if white { from << 16 } else { from >> 16 };
    n.ep = if k == 1 && to == two {
        if white {
            m.from + 8
        } else {
            m.from - 8
        }
    } else {
        NO_SQ
    };
    n.half = if k == 1 || captured != 0 || ep_capture { 0 } else { p.half + 1 };
    n.full = if white { p.full } else { p.full + 1 };
    n.wtm = !p.wtm;
    n
}

/// Legal under the rules: movement pattern fine and the mover's king is not attacked afterwards.
pub fn legal_ref(p: &Pos, m: Mv) -> bool {
    if !fide_pseudo(p, m) {
        return false;
    }
    let n = apply_ref(p, m);
    !attacked_ref(&n.bb, p.them(), n.king_sq(p.us()))
}

/// The contract of the repository's *candidate* generator: movement rules, except that king steps onto
/// squares the opponent attacks in the current position (not counting squares the opponent occupies)
/// are already left out, and castling requires all of e/f/g resp. e/d/c unattacked.
pub fn gen_pseudo(p: &Pos, m: Mv) -> bool {
    if !fide_pseudo(p, m) {
        return false;
    }
    let us = p.us();
    let them = 1 - us;
    if p.kind_at(us, m.from) == 6 {
        let cs = castle_side_of(p, m);
        if cs != 0 {
            return !attacked_ref(&p.bb, them, m.to);
        }
        let opp = p.occ_c(them);
        // attack set excludes squares holding the attacker's own men: a defended piece may be "captured" here
        return opp & bit(m.to) != 0 || !attacked_ref(&p.bb, them, m.to);
    }
    true
}

/// The attributes a move value must carry, recomputed from position and coordinates:
/// (white, kind, from, to, capture kind or 0, promotion or 0, en passant, castle 0/1/2, double step)
pub fn attrs_ref(p: &Pos, m: Mv) -> (bool, u8, u8, u8, u8, u8, bool, u8, bool) {
    let us = p.us();
    let k = p.kind_at(us, m.from);
    let ep = is_ep_capture(p, m);
    let cap = if ep { 1 } else { p.kind_at(1 - us, m.to) };
    let r0 = m.from / 8;
    let r1 = m.to / 8;
    let dist = if r0 > r1 { r0 - r1 } else { r1 - r0 };
    (p.wtm, k, m.from, m.to, cap, m.promo, ep, castle_side_of(p, m), k == 1 && dist == 2)
}

/// Colour-mirror of a position: flip ranks, swap colours, side to move, rights and ep square.
pub fn mirror(p: &Pos) -> Pos {
    let f = |x: u64| x.swap_bytes();
    Pos {
        bb: [
            [f(p.bb[1][0]), f(p.bb[1][1]), f(p.bb[1][2]), f(p.bb[1][3]), f(p.bb[1][4]), f(p.bb[1][5])],
            [f(p.bb[0][0]), f(p.bb[0][1]), f(p.bb[0][2]), f(p.bb[0][3]), f(p.bb[0][4]), f(p.bb[0][5])],
        ],
        wtm: !p.wtm,
        rights: [p.rights[2], p.rights[3], p.rights[0], p.rights[1]],
        ep: if p.ep == NO_SQ { NO_SQ } else { p.ep ^ 56 },
        half: p.half,
        full: p.full,
    }
}
