//! Board geometry written from scratch on plain u64/u8 (a1 = bit 0, h8 = bit 63), loop-free.
//! Shares no code with /repo. Used (a) as the oracle of C09 and (b), once C09 has discharged the
//! equivalence, as the stand-in for the table lookups in every other harness (DESIGN §3.2).

pub const FILE_A: u64 = 0x0101_0101_0101_0101;
pub const FILE_B: u64 = FILE_A << 1;
pub const FILE_G: u64 = FILE_A << 6;
pub const FILE_H: u64 = FILE_A << 7;
pub const RANK_1: u64 = 0xff;
pub const RANK_2: u64 = 0xff << 8;
pub const RANK_3: u64 = 0xff << 16;
pub const RANK_4: u64 = 0xff << 24;
pub const RANK_5: u64 = 0xff << 32;
pub const RANK_6: u64 = 0xff << 40;
pub const RANK_7: u64 = 0xff << 48;
pub const RANK_8: u64 = 0xff << 56;

#[inline(always)]
pub fn bit(sq: u8) -> u64 {
    1u64 << (sq & 63)
}

// one step of a set of squares in each of the eight directions, without wrap-around
#[inline(always)]
pub fn north(x: u64) -> u64 {
    x << 8
}
#[inline(always)]
pub fn south(x: u64) -> u64 {
    x >> 8
}
#[inline(always)]
pub fn east(x: u64) -> u64 {
    (x & !FILE_H) << 1
}
#[inline(always)]
pub fn west(x: u64) -> u64 {
    (x & !FILE_A) >> 1
}
#[inline(always)]
pub fn north_east(x: u64) -> u64 {
    (x & !FILE_H) << 9
}
#[inline(always)]
pub fn north_west(x: u64) -> u64 {
    (x & !FILE_A) << 7
}
#[inline(always)]
pub fn south_east(x: u64) -> u64 {
    (x & !FILE_H) >> 7
}
#[inline(always)]
pub fn south_west(x: u64) -> u64 {
    (x & !FILE_A) >> 9
}

/// Squares reached from the set `s` by walking in direction `$step` over empty squares, up to and
/// including the first occupied square: seven unrolled flood steps, then one more step.
macro_rules! ray {
    ($step:ident, $s:expr, $empty:expr) => {{
        let e: u64 = $empty;
        let mut f: u64 = $s;
        f |= $step(f) & e;
        f |= $step(f) & e;
        f |= $step(f) & e;
        f |= $step(f) & e;
        f |= $step(f) & e;
        f |= $step(f) & e;
        f |= $step(f) & e;
        $step(f)
    }};
}

/// Rook-wise attack set of every slider in `s` (ray up to and including the first blocker).
pub fn geo_rook_set(s: u64, occ: u64) -> u64 {
    let e = !occ;
    ray!(north, s, e) | ray!(south, s, e) | ray!(east, s, e) | ray!(west, s, e)
}

pub fn geo_bishop_set(s: u64, occ: u64) -> u64 {
    let e = !occ;
    ray!(north_east, s, e) | ray!(north_west, s, e) | ray!(south_east, s, e) | ray!(south_west, s, e)
}

pub fn geo_rook(sq: u8, occ: u64) -> u64 {
    geo_rook_set(bit(sq), occ)
}

pub fn geo_bishop(sq: u8, occ: u64) -> u64 {
    geo_bishop_set(bit(sq), occ)
}

pub fn geo_queen(sq: u8, occ: u64) -> u64 {
    geo_rook(sq, occ) | geo_bishop(sq, occ)
}

pub fn geo_knight_set(s: u64) -> u64 {
    let l1 = (s >> 1) & !FILE_H;
    let l2 = (s >> 2) & !(FILE_H | FILE_G);
    let r1 = (s << 1) & !FILE_A;
    let r2 = (s << 2) & !(FILE_A | FILE_B);
    let h1 = l1 | r1;
    let h2 = l2 | r2;
    (h1 << 16) | (h1 >> 16) | (h2 << 8) | (h2 >> 8)
}

pub fn geo_knight(sq: u8) -> u64 {
    geo_knight_set(bit(sq))
}

pub fn geo_king_set(s: u64) -> u64 {
    let row = east(s) | west(s) | s;
    east(s) | west(s) | north(row) | south(row)
}

pub fn geo_king(sq: u8) -> u64 {
    geo_king_set(bit(sq))
}

/// Squares attacked by the pawns in `s` of the given colour.
pub fn geo_pawn_set(s: u64, white: bool) -> u64 {
    if white {
        north_east(s) | north_west(s)
    } else {
        south_east(s) | south_west(s)
    }
}

pub fn geo_pawn(sq: u8, white: bool) -> u64 {
    geo_pawn_set(bit(sq), white)
}

#[cfg(all(test, not(kani), not(replay)))]
mod selftest {
    //! The geometry above is itself checked natively against naive per-square ray walking, so that
    //! an error in the oracle cannot hide behind the solver (run by `./check setup`).
    use super::*;

    fn walk(sq: u8, df: i8, dr: i8, occ: u64) -> u64 {
        let (mut f, mut r) = ((sq % 8) as i8, (sq / 8) as i8);
        let mut out = 0u64;
        loop {
            f += df;
            r += dr;
            if f < 0 || f > 7 || r < 0 || r > 7 {
                break;
            }
            let b = 1u64 << (r * 8 + f);
            out |= b;
            if occ & b != 0 {
                break;
            }
        }
        out
    }

    fn leap(sq: u8, offs: &[(i8, i8)]) -> u64 {
        let (f, r) = ((sq % 8) as i8, (sq / 8) as i8);
        let mut out = 0;
        for (df, dr) in offs {
            let (f2, r2) = (f + df, r + dr);
            if (0..8).contains(&f2) && (0..8).contains(&r2) {
                out |= 1u64 << (r2 * 8 + f2);
            }
        }
        out
    }

    fn rng(s: &mut u64) -> u64 {
        *s ^= *s << 13;
        *s ^= *s >> 7;
        *s ^= *s << 17;
        *s
    }

    #[test]
    fn geo_matches_naive_walk() {
        let mut seed = 0x9e3779b97f4a7c15u64;
        for sq in 0..64u8 {
            for i in 0..4000 {
                let mut occ = rng(&mut seed);
                if i % 3 == 0 {
                    occ &= rng(&mut seed);
                }
                if i % 5 == 0 {
                    occ &= rng(&mut seed);
                }
                if i == 0 {
                    occ = 0;
                }
                if i == 1 {
                    occ = !0;
                }
                let r = walk(sq, 0, 1, occ) | walk(sq, 0, -1, occ) | walk(sq, 1, 0, occ) | walk(sq, -1, 0, occ);
                let b = walk(sq, 1, 1, occ) | walk(sq, 1, -1, occ) | walk(sq, -1, 1, occ) | walk(sq, -1, -1, occ);
                assert_eq!(geo_rook(sq, occ), r, "rook sq={} occ={:x}", sq, occ);
                assert_eq!(geo_bishop(sq, occ), b, "bishop sq={} occ={:x}", sq, occ);
                assert_eq!(geo_queen(sq, occ), r | b);
            }
            let n = leap(sq, &[(1, 2), (2, 1), (2, -1), (1, -2), (-1, -2), (-2, -1), (-2, 1), (-1, 2)]);
            let k = leap(sq, &[(1, 1), (1, 0), (1, -1), (0, -1), (-1, -1), (-1, 0), (-1, 1), (0, 1)]);
            assert_eq!(geo_knight(sq), n, "knight {}", sq);
            assert_eq!(geo_king(sq), k, "king {}", sq);
            assert_eq!(geo_king_set(bit(sq)), k, "king set {}", sq);
            assert_eq!(geo_pawn(sq, true), leap(sq, &[(-1, 1), (1, 1)]));
            assert_eq!(geo_pawn(sq, false), leap(sq, &[(-1, -1), (1, -1)]));
        }
        // set-wise versions are unions of the per-square versions
        for _ in 0..2000 {
            let s = rng(&mut seed) & rng(&mut seed) & rng(&mut seed);
            let occ = rng(&mut seed) & rng(&mut seed) | s;
            let (mut r, mut b, mut n, mut k) = (0, 0, 0, 0);
            for sq in 0..64u8 {
                if s & bit(sq) != 0 {
                    r |= geo_rook(sq, occ);
                    b |= geo_bishop(sq, occ);
                    n |= geo_knight(sq);
                    k |= geo_king(sq);
                }
            }
            assert_eq!(geo_rook_set(s, occ), r);
            assert_eq!(geo_bishop_set(s, occ), b);
            assert_eq!(geo_knight_set(s), n);
            assert_eq!(geo_king_set(s), k);
        }
    }
}
