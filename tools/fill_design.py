#!/usr/bin/env python3
"""Regenerates the two generated tables of DESIGN.md (calibration, seeded changes) between their markers."""
import os, re, subprocess
ROOT = os.path.dirname(os.path.dirname(os.path.abspath(__file__)))
p = os.path.join(ROOT, "DESIGN.md")
s = open(p).read()
calib = subprocess.check_output(["python3", os.path.join(ROOT, "tools/calib_table.py")], text=True)
seeded = subprocess.check_output(["python3", os.path.join(ROOT, "tools/seed_report.py")], text=True)
s = re.sub(r"<!-- CALIB:BEGIN -->.*?<!-- CALIB:END -->", lambda m: "<!-- CALIB:BEGIN -->\n" + calib + "<!-- CALIB:END -->", s, flags=re.S)
s = re.sub(r"<!-- SEEDED:BEGIN -->.*?<!-- SEEDED:END -->", lambda m: "<!-- SEEDED:BEGIN -->\n" + seeded + "<!-- SEEDED:END -->", s, flags=re.S)
open(p, "w").write(s)
print("DESIGN.md tables regenerated")
