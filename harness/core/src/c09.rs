//! C09 — attack lookup tables equal board geometry for every square and occupancy (DESIGN §4.5).
//!
//! The lazily initialised tables are closed, input-free computations that CBMC cannot run (107 648 fill
//! iterations); they are produced by running the repository's own initialisers natively
//! (tools/tabledump -> gen_tables.rs, regenerated on every check) and substituted for the private
//! initialisers with `kani::stub`. What the solver decides is the input-dependent part: the real public
//! lookup (mask, wrapping_mul by the real magic, shift, bounds-checked Vec index, lazy_static deref)
//! against loop-free ray geometry, for all 2^64 occupancies of each square.
//! In the native replay no stub is active: the real initialisers fill the real tables.

use crate::geo::*;
use weechess_core::utils::ArrayMap;
use weechess_core::*;

#[cfg(replay)]
use crate::kani;

pub fn one_table(sq: usize, t: &'static [BitBoard]) -> ArrayMap<Square, Vec<BitBoard>> {
    let mut m: ArrayMap<Square, Vec<BitBoard>> = ArrayMap::new([const { Vec::new() }; 64]);
    m[Square::try_from(sq as u8).unwrap()] = t.to_vec();
    m
}

pub fn rook_masks_stub() -> ArrayMap<Square, BitBoard> {
    ArrayMap::new(crate::gen_tables::ROOK_MASKS)
}

pub fn bishop_masks_stub() -> ArrayMap<Square, BitBoard> {
    ArrayMap::new(crate::gen_tables::BISHOP_MASKS)
}

pub fn knight_stub() -> ArrayMap<Square, BitBoard> {
    ArrayMap::new(crate::gen_tables::KNIGHT)
}

pub fn king_stub() -> ArrayMap<Square, BitBoard> {
    ArrayMap::new(crate::gen_tables::KING)
}

pub fn pawn_stub() -> ArrayMap<Color, ArrayMap<Square, BitBoard>> {
    ArrayMap::new([
        ArrayMap::new(crate::gen_tables::PAWN_WHITE),
        ArrayMap::new(crate::gen_tables::PAWN_BLACK),
    ])
}

/// All 2^64 occupancies for one square: rook, bishop and queen lookups equal the ray walk.
pub fn sliders_body(sq: u8) {
    let occ: u64 = kani::any();
    println!("CASE {{\"harness\":\"c09 sliders\",\"square\":{},\"occupancy\":\"{:#018x}\"}}", sq, occ);
    let s = Square::try_from(sq).unwrap();
    let r: u64 = AttackGenerator::compute_rook_attacks(s, BitBoard::new(occ)).into();
    let b: u64 = AttackGenerator::compute_bishop_attacks(s, BitBoard::new(occ)).into();
    let q: u64 = AttackGenerator::compute_queen_attacks(s, BitBoard::new(occ)).into();
    assert!(r == geo_rook(sq, occ), "rook lookup equals the ray walk up to and including the first blocker");
    assert!(b == geo_bishop(sq, occ), "bishop lookup equals the ray walk up to and including the first blocker");
    assert!(q == (geo_rook(sq, occ) | geo_bishop(sq, occ)), "queen lookup equals rook rays plus bishop rays");
    kani::cover!(r != geo_rook(sq, 0), "a blocker shortens a rook ray");
    kani::cover!(b != geo_bishop(sq, 0), "a blocker shortens a bishop ray");
    kani::cover!(r == geo_rook(sq, 0) && (occ & !bit(sq)) != 0, "off-ray or edge occupancy that does not matter");
}

#[macro_export]
macro_rules! c09_square {
    ($m:ident, $sq:expr, $rt:ident, $bt:ident) => {
        pub mod $m {
            use super::*;
            use weechess_core::utils::ArrayMap;
            use weechess_core::{BitBoard, Square};

            pub fn rook_table() -> ArrayMap<Square, Vec<BitBoard>> {
                crate::c09::one_table($sq, &$rt)
            }

            pub fn bishop_table() -> ArrayMap<Square, Vec<BitBoard>> {
                crate::c09::one_table($sq, &$bt)
            }

            #[cfg_attr(kani, kani::proof)]
            #[cfg_attr(kani, kani::stub(weechess_core::attacks::data::compute_rook_magic_table, rook_table))]
            #[cfg_attr(kani, kani::stub(weechess_core::attacks::data::compute_bishop_magic_table, bishop_table))]
            #[cfg_attr(kani, kani::stub(weechess_core::attacks::data::compute_rook_slide_masks, crate::c09::rook_masks_stub))]
            #[cfg_attr(kani, kani::stub(weechess_core::attacks::data::compute_bishop_slide_masks, crate::c09::bishop_masks_stub))]
            #[cfg_attr(replay, test)]
            fn sliders() {
                crate::c09::sliders_body($sq);
            }
        }
    };
}

/// Knight, king and pawn lookups for every square and both colours.
#[cfg_attr(kani, kani::proof)]
#[cfg_attr(kani, kani::stub(weechess_core::attacks::data::compute_knight_attacks, knight_stub))]
#[cfg_attr(kani, kani::stub(weechess_core::attacks::data::compute_king_attacks, king_stub))]
#[cfg_attr(kani, kani::stub(weechess_core::attacks::data::compute_pawn_attacks, pawn_stub))]
#[cfg_attr(replay, test)]
fn leapers() {
    let sq: u8 = kani::any();
    let white: bool = kani::any();
    kani::assume(sq < 64);
    println!("CASE {{\"harness\":\"c09 leapers\",\"square\":{},\"white\":{}}}", sq, white);
    let s = Square::try_from(sq).unwrap();
    let c = if white { Color::White } else { Color::Black };
    let n: u64 = AttackGenerator::compute_knight_attacks(s).into();
    let k: u64 = AttackGenerator::compute_king_attacks(s).into();
    let p: u64 = AttackGenerator::compute_pawn_attacks(s, c).into();
    assert!(n == geo_knight(sq), "knight lookup equals the eight jumps without wrap-around");
    assert!(k == geo_king(sq), "king lookup equals the eight neighbours without wrap-around");
    assert!(p == geo_pawn(sq, white), "pawn lookup equals the two forward diagonals of that colour without wrap-around");
    kani::cover!(sq % 8 == 0 && n.count_ones() == 4, "knight on the a-file");
    kani::cover!(sq == 63 && k.count_ones() == 3, "king in the corner");
    kani::cover!(!white && sq % 8 == 7 && p.count_ones() == 1, "black pawn on the h-file");
    kani::cover!(white && sq >= 56 && p == 0, "white pawn pattern from the eighth rank is empty");
}

/// The piece-kind dispatcher routes every kind and colour to its own lookup (square d4).
#[cfg_attr(kani, kani::proof)]
#[cfg_attr(kani, kani::stub(weechess_core::attacks::data::compute_rook_magic_table, crate::gen_tables::sq27::rook_table))]
#[cfg_attr(kani, kani::stub(weechess_core::attacks::data::compute_bishop_magic_table, crate::gen_tables::sq27::bishop_table))]
#[cfg_attr(kani, kani::stub(weechess_core::attacks::data::compute_rook_slide_masks, rook_masks_stub))]
#[cfg_attr(kani, kani::stub(weechess_core::attacks::data::compute_bishop_slide_masks, bishop_masks_stub))]
#[cfg_attr(kani, kani::stub(weechess_core::attacks::data::compute_knight_attacks, knight_stub))]
#[cfg_attr(kani, kani::stub(weechess_core::attacks::data::compute_king_attacks, king_stub))]
#[cfg_attr(kani, kani::stub(weechess_core::attacks::data::compute_pawn_attacks, pawn_stub))]
#[cfg_attr(replay, test)]
fn dispatch_d4() {
    let kind: u8 = kani::any();
    let white: bool = kani::any();
    let occ: u64 = kani::any();
    kani::assume(kind >= 1 && kind <= 6);
    println!("CASE {{\"harness\":\"c09 dispatch\",\"kind\":{},\"white\":{},\"occupancy\":\"{:#018x}\"}}", kind, white, occ);
    let c = if white { Color::White } else { Color::Black };
    let p = match kind {
        1 => Piece::Pawn,
        2 => Piece::Knight,
        3 => Piece::Bishop,
        4 => Piece::Rook,
        5 => Piece::Queen,
        _ => Piece::King,
    };
    let got: u64 = AttackGenerator::compute(PieceIndex::new(c, p), Square::D4, BitBoard::new(occ)).into();
    let want = match kind {
        1 => geo_pawn(27, white),
        2 => geo_knight(27),
        3 => geo_bishop(27, occ),
        4 => geo_rook(27, occ),
        5 => geo_queen(27, occ),
        _ => geo_king(27),
    };
    assert!(got == want, "AttackGenerator::compute routes each piece kind and colour to its own attack set");
    kani::cover!(kind == 1 && !white, "black pawn through the dispatcher");
    kani::cover!(kind == 5 && got != geo_queen(27, 0), "blocked queen through the dispatcher");
}

/// Lemma: `BitBoard::shift` moves a set of squares by (file, rank) steps and drops what leaves the board.
#[cfg_attr(kani, kani::proof)]
#[cfg_attr(replay, test)]
fn lemma_bitboard_shift() {
    let x: u64 = kani::any();
    let df: i8 = kani::any();
    let dr: i8 = kani::any();
    kani::assume(df >= -7 && df <= 7 && dr >= -7 && dr <= 7);
    println!("CASE {{\"harness\":\"c09 shift\",\"board\":\"{:#018x}\",\"file\":{},\"rank\":{}}}", x, df, dr);
    let got: u64 = BitBoard::new(x).shift(Offset { file: df, rank: dr }).into();
    // reference, square-wise: target t is set iff its source t - (df, dr) is on the board and set in x
    let t: u8 = kani::any();
    kani::assume(t < 64);
    let sf = (t % 8) as i8 - df;
    let sr = (t / 8) as i8 - dr;
    let src_on = sf >= 0 && sf <= 7 && sr >= 0 && sr <= 7;
    let want = src_on && (x >> ((sr * 8 + sf) as u32 & 63)) & 1 == 1;
    assert!(((got >> t) & 1 == 1) == want, "BitBoard::shift moves every square by the offset and drops what leaves the board");
    kani::cover!(df == -2 && dr == 1 && got != 0, "knight-like shift");
    kani::cover!(df == 7 && got != 0, "a-file to h-file");
}

/// Lemma: `Square::offset` is `None` exactly off-board and otherwise the arithmetic neighbour.
#[cfg_attr(kani, kani::proof)]
#[cfg_attr(replay, test)]
fn lemma_square_offset() {
    let sq: u8 = kani::any();
    let df: i8 = kani::any();
    let dr: i8 = kani::any();
    kani::assume(sq < 64 && df >= -7 && df <= 7 && dr >= -7 && dr <= 7);
    println!("CASE {{\"harness\":\"c09 offset\",\"square\":{},\"file\":{},\"rank\":{}}}", sq, df, dr);
    let got = Square::try_from(sq).unwrap().offset(Offset { file: df, rank: dr });
    let f = (sq % 8) as i8 + df;
    let r = (sq / 8) as i8 + dr;
    let on = f >= 0 && f <= 7 && r >= 0 && r <= 7;
    match got {
        None => assert!(!on, "offset is None only off the board"),
        Some(t) => {
            let t: u8 = t.into();
            assert!(on && t == (r * 8 + f) as u8, "offset lands on the arithmetic neighbour");
        }
    }
    kani::cover!(got.is_none() && sq % 8 == 0 && df == -1, "step off the a-file");
    kani::cover!(got.is_some() && df == 7 && dr == -7, "corner to corner");
}

/// Reachability witness (must come back FAILED): the lookup really runs on the dumped table.
#[cfg_attr(kani, kani::proof)]
#[cfg_attr(kani, kani::stub(weechess_core::attacks::data::compute_rook_magic_table, crate::gen_tables::sq27::rook_table))]
#[cfg_attr(kani, kani::stub(weechess_core::attacks::data::compute_rook_slide_masks, rook_masks_stub))]
#[cfg_attr(replay, test)]
fn reach_witness() {
    let occ: u64 = kani::any();
    let r: u64 = AttackGenerator::compute_rook_attacks(Square::D4, BitBoard::new(occ)).into();
    assert!(r == 0, "reach witness");
}
