//! Kani harnesses over /repo/weechess-engine (and -core) (DESIGN.md §3, §4). One cargo feature per property so a
//! check compiles and code-generates only its own harnesses.
//!
//! Built two ways:
//!  * `cargo kani` (cfg `kani`): `#[kani::proof]` harnesses, decided by CBMC;
//!  * `cargo test` with `--cfg replay`: the same functions as `#[test]`s over `common/shim.rs`, fed the
//!    solver's counterexample values — the native replay (dev and release) that confirms a violation.
#![feature(generic_const_exprs)]
#![feature(allocator_api)]
#![allow(incomplete_features)]
#![allow(dead_code)]
#![allow(unused_imports)]
#![allow(unused_macros)]

#[cfg(all(replay, not(kani)))]
#[path = "../../common/shim.rs"]
pub mod kani;

/// A harness: `#[kani::proof]` under Kani, `#[test]` in native replay.
macro_rules! proof {
    ($(#[$m:meta])* fn $name:ident() $body:block) => {
        #[cfg_attr(kani, kani::proof)]
        #[cfg_attr(replay, test)]
        $(#[$m])*
        fn $name() $body
    };
}

/// A harness in which the six table lookups are replaced by loop-free geometry (discharged by C09).
macro_rules! proof_geo {
    ($(#[$m:meta])* fn $name:ident() $body:block) => {
        #[cfg_attr(kani, kani::proof)]
        #[cfg_attr(kani, kani::stub(weechess_core::AttackGenerator::compute_rook_attacks, crate::stubs::rook_attacks))]
        #[cfg_attr(kani, kani::stub(weechess_core::AttackGenerator::compute_bishop_attacks, crate::stubs::bishop_attacks))]
        #[cfg_attr(kani, kani::stub(weechess_core::AttackGenerator::compute_queen_attacks, crate::stubs::queen_attacks))]
        #[cfg_attr(kani, kani::stub(weechess_core::AttackGenerator::compute_knight_attacks, crate::stubs::knight_attacks))]
        #[cfg_attr(kani, kani::stub(weechess_core::AttackGenerator::compute_king_attacks, crate::stubs::king_attacks))]
        #[cfg_attr(kani, kani::stub(weechess_core::AttackGenerator::compute_pawn_attacks, crate::stubs::pawn_attacks))]
        #[cfg_attr(replay, test)]
        $(#[$m])*
        fn $name() $body
    };
}

#[path = "../../common/geo.rs"]
pub mod geo;
#[path = "../../common/rules.rs"]
pub mod rules;
#[cfg(any(kani, replay))]
#[path = "../../common/sym.rs"]
pub mod sym;
#[cfg(any(kani, replay))]
#[path = "../../common/stubs.rs"]
pub mod stubs;

#[cfg(all(any(kani, replay), any(feature = "c05", feature = "c13")))]
mod c05;
#[cfg(all(any(kani, replay), feature = "c13"))]
mod c13;
#[cfg(all(any(kani, replay), feature = "c15"))]
mod c15;
