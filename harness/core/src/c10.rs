//! C10 — check detection and attacked-square sets (DESIGN §4.6).
//! Arbitrary placements (not only legal positions), at most `U` men per kind and colour.

use crate::geo::*;
use crate::rules::*;
use crate::sym::*;
use weechess_core::*;

#[cfg(replay)]
use crate::kani;

fn print_bb(tag: &str, bb: &[[u64; 6]; 2], t: u8) {
    let p = Pos { bb: *bb, wtm: true, rights: [false; 4], ep: NO_SQ, half: 0, full: 1 };
    print_pos(tag, &p);
    println!("CASE {{\"harness\":\"{}\",\"target\":{}}}", tag, t);
}

/// Attack set, pawn attack set and check flag of colour `c` against the square-centric reference.
fn attacks(c: usize, u: u32, tag: &str) {
    let bb = any_bb();
    bound_per_kind(&bb, 0, u);
    bound_per_kind(&bb, 1, u);
    let t: u8 = kani::any();
    kani::assume(t < 64);
    print_bb(tag, &bb, t);
    let board = to_board(&bb);
    let col = color_of(c);
    let own = occ_of(&bb, c) & bit(t) != 0;
    let all = board.colored_attacks(col);
    assert!(all.test(sq(t)) == (attacked_ref(&bb, c, t) && !own), "attacked set = union of the men's attack sets minus own squares");
    let pawn = board.colored_pawn_attacks(col);
    assert!(pawn.test(sq(t)) == (pawn_attacked_ref(&bb, c, t) && !own), "pawn-only attacked set likewise");
    // the same question on a board that has not been asked anything yet (cold cache)
    let cold = to_board(&bb).colored_pawn_attacks(col);
    assert!(cold == pawn, "pawn-only attacked set does not depend on what was asked before");
    // the other colour is in check exactly when its king stands on an attacked square
    let victim = 1 - c;
    let ksq = bb[victim][K].trailing_zeros() as u8;
    assert!(board.is_check(color_of(victim)) == attacked_ref(&bb, c, ksq), "in check iff the king's square is attacked by the opponent");
    let st = State::new(
        to_board(&bb),
        color_of(victim),
        weechess_core::utils::ArrayMap::new([CastleRights::NONE, CastleRights::NONE]),
        None,
        Clock { halfmove_clock: 0, fullmove_number: 1 },
    );
    assert!(st.is_check() == attacked_ref(&bb, c, ksq), "State::is_check agrees for the side to move");
    kani::cover!(all.test(sq(t)) && !pawn.test(sq(t)), "attacked by a piece only");
    kani::cover!(pawn.test(sq(t)), "attacked by a pawn");
    kani::cover!(attacked_ref(&bb, c, t) && own, "own man defended: not in the set");
    kani::cover!(board.is_check(color_of(victim)), "the other side is in check");
    kani::cover!((geo_rook(t, 0) & bb[c][R]) != 0 && !attacked_ref(&bb, c, t), "slider ray blocked before the target");
}

proof_geo! {
    fn attacks_white_u2() {
        attacks(0, 2, "c10 attacks_white_u2");
    }
}

proof_geo! {
    fn attacks_black_u2() {
        attacks(1, 2, "c10 attacks_black_u2");
    }
}

proof_geo! {
    fn attacks_white_u3() {
        attacks(0, 3, "c10 attacks_white_u3");
    }
}

proof_geo! {
    fn attacks_black_u3() {
        attacks(1, 3, "c10 attacks_black_u3");
    }
}

/// C10.c — `Board::piece_at` equals a straight-line scan of the twelve boards; no bound.
proof! {
    fn lemma_piece_at() {
        let bb = any_bb();
        let t: u8 = kani::any();
        kani::assume(t < 64);
        print_bb("c10 lemma_piece_at", &bb, t);
        let board = to_board(&bb);
        let got = board.piece_at(sq(t));
        let w = kind_on(&bb, 0, t);
        let b = kind_on(&bb, 1, t);
        match got {
            None => assert!(w == 0 && b == 0, "piece_at is None only on empty squares"),
            Some(p) => {
                let (pc, col) = p.piece_and_color();
                let c = if col == Color::White { 0 } else { 1 };
                assert!(kind_on(&bb, c, t) == kind_no(pc) && kind_no(pc) != 0, "piece_at reports the man standing there");
            }
        }
        assert!(got == crate::stubs::piece_at(&board, sq(t)), "piece_at equals the loop-free scan used as its stand-in");
        // occupancy summaries
        let occ: u64 = board.occupancy().into();
        let vac: u64 = board.vacancy().into();
        assert!(occ == (occ_of(&bb, 0) | occ_of(&bb, 1)) && vac == !occ, "occupancy and vacancy match the placement");
        kani::cover!(got.is_none(), "empty square");
        kani::cover!(b == 5, "black queen found");
    }
}

/// C10.b — answers do not depend on query order or on cloning: a symbolic program of three steps
/// (queries and clone-and-continue), then a symbolic query, answers as a fresh board would.
fn attack_set_ref(bb: &[[u64; 6]; 2], c: usize) -> u64 {
    crate::stubs::attack_set(bb, c)
}

fn pawn_set_ref(bb: &[[u64; 6]; 2], c: usize) -> u64 {
    geo_pawn_set(bb[c][P], c == 0) & !occ_of(bb, c)
}

fn query(b: &Board, op: u8) -> u64 {
    match op {
        0 => b.colored_attacks(Color::White).into(),
        1 => b.colored_attacks(Color::Black).into(),
        2 => b.colored_pawn_attacks(Color::White).into(),
        3 => b.colored_pawn_attacks(Color::Black).into(),
        4 => b.is_check(Color::White) as u64,
        _ => b.is_check(Color::Black) as u64,
    }
}

proof_geo! {
    fn order_and_clone_independence() {
        let bb = any_bb();
        bound_per_kind(&bb, 0, 1);
        bound_per_kind(&bb, 1, 1);
        // program: [clone] q1 [clone] q2 q2 — every query pair, with a clone before and/or between them
        let clone_first: bool = kani::any();
        let clone_between: bool = kani::any();
        let q1: u8 = kani::any();
        let q2: u8 = kani::any();
        kani::assume(q1 <= 5 && q2 <= 5);
        print_bb("c10 order_and_clone_independence", &bb, 0);
        println!("CASE {{\"harness\":\"c10 order\",\"clone_first\":{},\"q1\":{},\"clone_between\":{},\"q2\":{}}}", clone_first, q1, clone_between, q2);
        // reference answers
        let want: [u64; 6] = [
            attack_set_ref(&bb, 0),
            attack_set_ref(&bb, 1),
            pawn_set_ref(&bb, 0),
            pawn_set_ref(&bb, 1),
            attacked_ref(&bb, 1, bb[0][K].trailing_zeros() as u8) as u64,
            attacked_ref(&bb, 0, bb[1][K].trailing_zeros() as u8) as u64,
        ];
        let mut cur = to_board(&bb);
        if clone_first {
            cur = cur.clone();
        }
        assert!(query(&cur, q1) == want[q1 as usize], "first query is right (fresh or cloned board)");
        if clone_between {
            cur = cur.clone();
        }
        assert!(query(&cur, q2) == want[q2 as usize], "a query answers the same whatever was asked or cloned before");
        assert!(query(&cur, q2) == want[q2 as usize], "repeating a query gives the same answer");
        kani::cover!(clone_between && q1 == 0 && q2 == 0, "query, clone, same query");
        kani::cover!(clone_between && q1 == 1 && q2 == 4, "query, clone, dependent check flag");
        kani::cover!(!clone_between && q1 == 2 && q2 == 0, "pawn set first, then the full set of the same colour");
    }
}

proof_geo! {
    fn reach_witness() {
        let bb = any_bb();
        bound_per_kind(&bb, 0, 1);
        bound_per_kind(&bb, 1, 1);
        let board = to_board(&bb);
        let a: u64 = board.colored_attacks(Color::White).into();
        assert!(a == 0, "reach witness");
    }
}
