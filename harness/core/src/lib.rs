//! Kani harnesses over /repo/weechess-core (DESIGN.md §3, §4). One cargo feature per property so a
//! check compiles and code-generates only its own harnesses.
//!
//! Built two ways:
//!  * `cargo kani` (cfg `kani`): `#[kani::proof]` harnesses, decided by CBMC;
//!  * `cargo test` with `--cfg replay`: the same functions as `#[test]`s over `common/shim.rs`, fed the
//!    solver's counterexample values — the native replay (dev and release) that confirms a violation.
#![feature(generic_const_exprs)]
#![feature(allocator_api)]
#![allow(incomplete_features)]
#![allow(dead_code)]
#![allow(unused_imports)]
#![allow(unused_macros)]

#[cfg(all(replay, not(kani)))]
#[path = "../../common/shim.rs"]
pub mod kani;

#[path = "../../common/geo.rs"]
pub mod geo;

#[path = "../../common/rules.rs"]
pub mod rules;
#[cfg(any(kani, replay))]
#[path = "../../common/sym.rs"]
pub mod sym;
#[cfg(any(kani, replay))]
#[path = "../../common/stubs.rs"]
pub mod stubs;

#[cfg(all(any(kani, replay), feature = "c02"))]
mod c02;
#[cfg(all(any(kani, replay), feature = "c09"))]
mod c09;
#[cfg(all(any(kani, replay), feature = "c09"))]
mod gen_tables;
#[cfg(all(any(kani, replay), feature = "c20"))]
mod c20;
