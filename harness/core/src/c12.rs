//! C12 — move text resolves to exactly the intended move (DESIGN §4.7).

use crate::rules::*;
use crate::sym::*;
use std::fmt::Write as _;
use weechess_core::notation::{into_notation, lan::Lan, try_from_notation, San};
use weechess_core::*;

#[cfg(replay)]
use crate::kani;

/// The harness only ever writes ASCII into its buffers; skipping `from_utf8`'s validation loops keeps
/// CBMC's effort on the parser under test.
fn ascii_str(bytes: &[u8]) -> &str {
    unsafe { std::str::from_utf8_unchecked(bytes) }
}

fn show(tag: &str, bytes: &[u8]) {
    #[cfg(not(kani))]
    println!("CASE {{\"harness\":\"{}\",\"text\":{:?}}}", tag, String::from_utf8_lossy(bytes));
    #[cfg(kani)]
    let _ = (tag, bytes);
}

/// SAN components as a writer would choose them.
#[derive(Clone, Copy)]
struct SanParts {
    piece: u8,       // 0 = no letter (pawn), 1..6 = P N B R Q K written explicitly
    ofile: u8,       // 8 = not written
    orank: u8,       // 8 = not written
    capture: bool,   // 'x'
    dfile: u8,       // 0..7
    drank: u8,       // 0..7
    promo: u8,       // 0 none, 2..5 = N B R Q
    promo_eq: bool,  // "=Q" rather than "Q"
    suffix: u8,      // 0 none, 1 '+', 2 '#'
}

fn any_parts() -> SanParts {
    let s = SanParts {
        piece: kani::any(),
        ofile: kani::any(),
        orank: kani::any(),
        capture: kani::any(),
        dfile: kani::any(),
        drank: kani::any(),
        promo: kani::any(),
        promo_eq: kani::any(),
        suffix: kani::any(),
    };
    kani::assume(s.piece <= 6 && s.piece != 1 && s.ofile <= 8 && s.orank <= 8 && s.dfile < 8 && s.drank < 8);
    kani::assume(s.promo == 0 || (s.promo >= 2 && s.promo <= 5));
    // spellings a SAN writer produces: no explicit 'P'; a promotion suffix only on a pawn move to rank 1 or 8
    kani::assume(s.promo == 0 || (s.piece == 0 && (s.drank == 0 || s.drank == 7)));
    kani::assume(s.suffix <= 2);
    s
}

const LETTER: [u8; 7] = [b' ', b'P', b'N', b'B', b'R', b'Q', b'K'];

fn write_san(s: SanParts, buf: &mut [u8; 10]) -> usize {
    let mut n = 0;
    if s.piece != 0 {
        buf[n] = LETTER[s.piece as usize];
        n += 1;
    }
    if s.ofile < 8 {
        buf[n] = b'a' + s.ofile;
        n += 1;
    }
    if s.orank < 8 {
        buf[n] = b'1' + s.orank;
        n += 1;
    }
    if s.capture {
        buf[n] = b'x';
        n += 1;
    }
    buf[n] = b'a' + s.dfile;
    n += 1;
    buf[n] = b'1' + s.drank;
    n += 1;
    if s.promo != 0 {
        if s.promo_eq {
            buf[n] = b'=';
            n += 1;
        }
        buf[n] = LETTER[s.promo as usize];
        n += 1;
    }
    if s.suffix == 1 {
        buf[n] = b'+';
        n += 1;
    } else if s.suffix == 2 {
        buf[n] = b'#';
        n += 1;
    }
    n
}

fn file_no(f: File) -> u8 {
    f.index() as u8
}

fn rank_no(r: Rank) -> u8 {
    r.index() as u8
}

// C12.a — the parser reads back every component of every spelling of the SAN grammar.
proof! {
    fn san_grammar_roundtrip() {
        let s = any_parts();
        let mut buf = [0u8; 10];
        let n = write_san(s, &mut buf);
        show("c12 san_grammar_roundtrip", &buf[..n]);
        let text = ascii_str(&buf[..n]);
        let q = try_from_notation::<MoveQuery, San>(text);
        assert!(q.is_ok(), "every spelling of the SAN grammar parses");
        let q = q.unwrap();
        let want_piece = if s.piece == 0 { 1 } else { s.piece };
        assert!(q.piece.map(kind_no) == Some(want_piece), "piece letter (pawn when absent)");
        assert!(q.origin_file.map(file_no) == if s.ofile < 8 { Some(s.ofile) } else { None }, "origin file as written");
        assert!(q.origin_rank.map(rank_no) == if s.orank < 8 { Some(s.orank) } else { None }, "origin rank as written");
        assert!(q.dest_file.map(file_no) == Some(s.dfile), "destination file");
        assert!(q.dest_rank.map(rank_no) == Some(s.drank), "destination rank");
        assert!(q.promotion.map(kind_no) == if s.promo != 0 { Some(s.promo) } else { None }, "promotion piece as written");
        assert!(q.is_capture == if s.capture { Some(true) } else { None }, "capture mark");
        assert!(q.castle.is_none(), "not a castling query");
        kani::cover!(n == 8, "longest spelling");
        kani::cover!(s.piece == 3 && s.ofile == 1 && s.dfile == 1, "bishop letter next to b-file letters");
        kani::cover!(s.promo == 3 && !s.promo_eq && s.suffix == 2, "promotion to bishop without '=' and with '#'");
    }
}

proof! {
    fn san_castle_texts() {
        let long: bool = kani::any();
        let suffix: u8 = kani::any();
        kani::assume(suffix <= 2);
        let mut buf = [0u8; 6];
        let mut n = 0;
        buf[0] = b'O'; buf[1] = b'-'; buf[2] = b'O';
        n += 3;
        if long {
            buf[3] = b'-'; buf[4] = b'O';
            n += 2;
        }
        if suffix == 1 { buf[n] = b'+'; n += 1; } else if suffix == 2 { buf[n] = b'#'; n += 1; }
        show("c12 san_castle_texts", &buf[..n]);
        let text = ascii_str(&buf[..n]);
        let q = try_from_notation::<MoveQuery, San>(text).unwrap();
        assert!(q.castle == Some(if long { Side::Queen } else { Side::King }), "castle text gives the castle query of that side");
        // and the query matches exactly the castling moves of that side
        let white: bool = kani::any();
        let side_k: bool = kani::any();
        let m = Move::by_castling(if white { Color::White } else { Color::Black }, if side_k { Side::King } else { Side::Queen });
        assert!(q.test(&m) == (side_k != long), "O-O matches king-side castling only, O-O-O queen-side only");
        kani::cover!(long && suffix == 2, "O-O-O#");
    }
}

// C12.b — the matcher: a query in the parser's image matches a move iff every written component agrees.
proof! {
    fn matcher_semantics() {
        let s = any_parts();
        let mut buf = [0u8; 10];
        let n = write_san(s, &mut buf);
        let text = ascii_str(&buf[..n]);
        let q = try_from_notation::<MoveQuery, San>(text).unwrap();
        // a symbolic move value of any constructor class, on a symbolic position
        let bb = any_bb();
        let wtm: bool = kani::any();
        let p = any_pos_around(bb, wtm);
        let m = any_mv();
        kani::assume(fide_pseudo(&p, m));
        show("c12 matcher_semantics", &buf[..n]);
        print_pos("c12 matcher_semantics", &p);
        print_mv("c12 matcher_semantics", m);
        let mv = build_move(&p, m);
        let (_, kind, from, to, cap, promo, _ep, _castle, _) = attrs_ref(&p, m);
        let want_piece = if s.piece == 0 { 1 } else { s.piece };
        let agree = kind == want_piece
            && (s.ofile == 8 || s.ofile == from % 8)
            && (s.orank == 8 || s.orank == from / 8)
            && s.dfile == to % 8
            && s.drank == to / 8
            && (s.promo == 0 || s.promo == promo)
            && (!s.capture || cap != 0);
        // a promotion suffix next to a move that is not a promotion is outside SAN (the matcher's leniency there is
        // not constrained)
        if s.promo == 0 || promo != 0 {
            assert!(q.test(&mv) == agree, "a SAN query matches a move iff piece, written origin parts, destination, promotion and capture mark agree");
        }
        kani::cover!(agree && cap != 0 && !s.capture, "capture matched without the optional 'x'");
        kani::cover!(!agree && kind == want_piece && s.dfile == to % 8 && s.drank == to / 8, "same piece and destination, told apart by origin/promotion/capture");
        kani::cover!(agree && promo == 2, "knight promotion matched");
    }
}

struct Sink {
    buf: [u8; 8],
    n: usize,
    overflow: bool,
}

impl std::fmt::Write for Sink {
    fn write_str(&mut self, s: &str) -> std::fmt::Result {
        for b in s.as_bytes() {
            if self.n < 8 {
                self.buf[self.n] = *b;
                self.n += 1;
            } else {
                self.overflow = true;
            }
        }
        Ok(())
    }
}

// C12.c — coordinate text: origin, destination, lower-case promotion letter; selects the same move again.
proof! {
    fn lan_text() {
        let bb = any_bb();
        let wtm: bool = kani::any();
        let p = any_pos_around(bb, wtm);
        let m = any_mv();
        kani::assume(fide_pseudo(&p, m));
        print_pos("c12 lan_text", &p);
        print_mv("c12 lan_text", m);
        let mv = build_move(&p, m);
        let mut sink = Sink { buf: [0; 8], n: 0, overflow: false };
        let r = write!(sink, "{}", into_notation::<_, Lan>(&mv));
        assert!(r.is_ok() && !sink.overflow, "coordinate text is written");
        let want_len = if m.promo != 0 { 5 } else { 4 };
        assert!(sink.n == want_len, "four characters, five with a promotion");
        assert!(sink.buf[0] == b'a' + m.from % 8 && sink.buf[1] == b'1' + m.from / 8, "origin square");
        assert!(sink.buf[2] == b'a' + m.to % 8 && sink.buf[3] == b'1' + m.to / 8, "destination square (castling: the king's two-square move)");
        if m.promo != 0 {
            assert!(sink.buf[4] == [b'?', b'?', b'n', b'b', b'r', b'q'][m.promo as usize], "lower-case promotion letter");
        }
        // reading the text back the way the UCI loop does selects this move, and only moves with these coordinates
        let o = Square::try_from(ascii_str(&sink.buf[0..2])).unwrap();
        let d = Square::try_from(ascii_str(&sink.buf[2..4])).unwrap();
        let mut q = MoveQuery::by_moving_from_to(o, d);
        if sink.n == 5 {
            let pr = match sink.buf[4] { b'n' => Piece::Knight, b'b' => Piece::Bishop, b'r' => Piece::Rook, _ => Piece::Queen };
            q.set_promotion(pr);
        }
        assert!(q.test(&mv), "the written coordinates select the same move again");
        let other = any_mv();
        kani::assume(fide_pseudo(&p, other));
        let omv = build_move(&p, other);
        if q.test(&omv) {
            assert!(other.from == m.from && other.to == m.to && (m.promo == 0 || other.promo == m.promo), "no move with other coordinates is selected");
        }
        kani::cover!(castle_side_of(&p, m) == 2, "queen-side castling written as e1c1/e8c8");
        kani::cover!(m.promo == 2, "knight promotion written");
    }
}

proof! {
    fn reach_witness() {
        let s = any_parts();
        let mut buf = [0u8; 10];
        let n = write_san(s, &mut buf);
        let text = ascii_str(&buf[..n]);
        let q = try_from_notation::<MoveQuery, San>(text);
        assert!(q.is_err(), "reach witness");
    }
}
