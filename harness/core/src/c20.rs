//! C20 — move values faithfully carry their attributes (DESIGN §4.11).
//! Loop-free: every constructor argument is symbolic, no bound.

use weechess_core::*;
#[cfg(replay)]
use crate::kani;

fn piece_of(k: u8) -> Piece {
    match k {
        1 => Piece::Pawn,
        2 => Piece::Knight,
        3 => Piece::Bishop,
        4 => Piece::Rook,
        5 => Piece::Queen,
        _ => Piece::King,
    }
}

fn color_of(w: bool) -> Color {
    if w {
        Color::White
    } else {
        Color::Black
    }
}

fn sq(i: u8) -> Square {
    Square::try_from(i).unwrap()
}

fn side_of(k: bool) -> Side {
    if k {
        Side::King
    } else {
        Side::Queen
    }
}

/// Symbolic constructor arguments, as plain integers (the oracle side).
#[derive(Clone, Copy)]
struct Args {
    class: u8, // 0 moving, 1 capturing, 2 promoting, 3 capture-promoting, 4 en passant, 5 castling
    white: bool,
    kind: u8,    // 1..=6
    origin: u8,  // < 64
    dest: u8,    // < 64
    capture: u8, // 1..=5 (capturable kinds)
    promo: u8,   // 2..=5
    kingside: bool,
}

fn any_args() -> Args {
    let a = Args {
        class: kani::any(),
        white: kani::any(),
        kind: kani::any(),
        origin: kani::any(),
        dest: kani::any(),
        capture: kani::any(),
        promo: kani::any(),
        kingside: kani::any(),
    };
    kani::assume(a.class <= 5);
    kani::assume(a.kind >= 1 && a.kind <= 6);
    kani::assume(a.origin < 64 && a.dest < 64);
    kani::assume(a.capture >= 1 && a.capture <= 5);
    kani::assume(a.promo >= 2 && a.promo <= 5);
    // en-passant moves are pawn moves
    kani::assume(a.class != 4 || a.kind == 1);
    a
}

fn build(a: Args) -> Move {
    let pi = PieceIndex::new(color_of(a.white), piece_of(a.kind));
    match a.class {
        0 => Move::by_moving(pi, sq(a.origin), sq(a.dest)),
        1 => Move::by_capturing(pi, sq(a.origin), sq(a.dest), piece_of(a.capture)),
        2 => Move::by_promoting(pi, sq(a.origin), sq(a.dest), piece_of(a.promo)),
        3 => Move::by_capture_promoting(
            pi,
            sq(a.origin),
            sq(a.dest),
            piece_of(a.capture),
            piece_of(a.promo),
        ),
        4 => Move::by_en_passant(pi, sq(a.origin), sq(a.dest)),
        _ => Move::by_castling(color_of(a.white), side_of(a.kingside)),
    }
}

/// What the constructor was *asked* to build: (colour, kind, origin, dest, capture, promotion, ep, castle, double step).
/// capture/promo 0 = none; castle 0 none, 1 king side, 2 queen side.
fn expected(a: Args) -> (bool, u8, u8, u8, u8, u8, bool, u8, bool) {
    let (kind, origin, dest) = if a.class == 5 {
        let o = if a.white { 4 } else { 60 };
        let d = match (a.white, a.kingside) {
            (true, true) => 6,
            (true, false) => 2,
            (false, true) => 62,
            (false, false) => 58,
        };
        (6u8, o, d)
    } else {
        (a.kind, a.origin, a.dest)
    };
    let capture = match a.class {
        1 | 3 => a.capture,
        4 => 1,
        _ => 0,
    };
    let promo = match a.class {
        2 | 3 => a.promo,
        _ => 0,
    };
    let ep = a.class == 4;
    let castle = if a.class == 5 {
        if a.kingside {
            1
        } else {
            2
        }
    } else {
        0
    };
    let r0 = origin / 8;
    let r1 = dest / 8;
    let dist = if r0 > r1 { r0 - r1 } else { r1 - r0 };
    let double = kind == 1 && dist > 1;
    (a.white, kind, origin, dest, capture, promo, ep, castle, double)
}

fn kind_no(p: Piece) -> u8 {
    match p {
        Piece::None => 0,
        Piece::Pawn => 1,
        Piece::Knight => 2,
        Piece::Bishop => 3,
        Piece::Rook => 4,
        Piece::Queen => 5,
        Piece::King => 6,
    }
}

/// What the move value *reports* through its accessors, same tuple layout.
fn reported(m: &Move) -> (bool, u8, u8, u8, u8, u8, bool, u8, bool) {
    let o: u8 = m.origin().into();
    let d: u8 = m.destination().into();
    (
        m.color() == Color::White,
        kind_no(m.piece()),
        o,
        d,
        m.capture().map(kind_no).unwrap_or(0),
        m.promotion().map(kind_no).unwrap_or(0),
        m.is_en_passant(),
        match m.castle_side() {
            None => 0,
            Some(Side::King) => 1,
            Some(Side::Queen) => 2,
        },
        m.is_double_pawn(),
    )
}

fn print_case(tag: &str, a: Args) {
    println!(
        "CASE {{\"harness\":\"{}\",\"class\":{},\"white\":{},\"kind\":{},\"origin\":{},\"dest\":{},\"capture\":{},\"promo\":{},\"kingside\":{}}}",
        tag, a.class, a.white, a.kind, a.origin, a.dest, a.capture, a.promo, a.kingside
    );
}

/// Every constructor reports exactly its inputs through every accessor.
#[cfg_attr(kani, kani::proof)]
#[cfg_attr(replay, test)]
fn attrs_roundtrip() {
    let a = any_args();
    print_case("attrs_roundtrip", a);
    let m = build(a);
    let e = expected(a);
    let r = reported(&m);
    assert!(r.0 == e.0, "colour reported back");
    assert!(r.1 == e.1, "moving piece reported back");
    assert!(r.2 == e.2, "origin reported back");
    assert!(r.3 == e.3, "destination reported back");
    assert!(r.4 == e.4, "captured kind reported back");
    assert!(r.5 == e.5, "promotion kind reported back");
    assert!(r.6 == e.6, "en-passant flag reported back");
    assert!(r.7 == e.7, "castling side reported back");
    assert!(r.8 == e.8, "double-step flag iff pawn and rank distance > 1");
    // derived accessors are consistent with the primary ones
    assert!(m.is_capture() == (e.4 != 0), "is_capture consistent");
    assert!(m.is_promotion() == (e.5 != 0), "is_promotion consistent");
    assert!(m.is_any_castle() == (e.7 != 0), "is_any_castle consistent");
    assert!(m.is_castle(Side::King) == (e.7 == 1), "is_castle(K) consistent");
    assert!(m.is_castle(Side::Queen) == (e.7 == 2), "is_castle(Q) consistent");
    assert!(
        kind_no(m.resulting_piece()) == if e.5 != 0 { e.5 } else { e.1 },
        "resulting piece is promotion or mover"
    );
    assert!(m.as_raw() < (1u32 << 29), "raw value fits 29 bits");
    assert!(m != Move::NULL, "a constructed move is not the null move");
    kani::cover!(a.class == 0 && e.8, "double step");
    kani::cover!(a.class == 3, "capture-promotion");
    kani::cover!(a.class == 4, "en passant");
    kani::cover!(a.class == 5 && !a.white && !a.kingside, "black queen-side castle");
}

/// Two independently constructed moves are equal exactly when all attributes agree.
#[cfg_attr(kani, kani::proof)]
#[cfg_attr(replay, test)]
fn eq_iff_attrs() {
    let a = any_args();
    let b = any_args();
    print_case("eq_iff_attrs.a", a);
    print_case("eq_iff_attrs.b", b);
    let m1 = build(a);
    let m2 = build(b);
    let same_attrs = reported(&m1) == reported(&m2);
    assert!((m1 == m2) == same_attrs, "move equality iff all attributes equal");
    // ... and the attributes are the requested ones, so equality is decided by the requests
    assert!(
        (m1 == m2) == (expected(a) == expected(b)),
        "move equality iff requested attributes equal"
    );
    kani::cover!(m1 == m2 && a.class == 3, "equal capture-promotions");
    kani::cover!(m1 != m2 && a.class != b.class && a.origin == b.origin && a.dest == b.dest && a.kind == b.kind, "same coordinates, different constructor class");
    kani::cover!(m1 != m2 && a.origin == b.origin && a.dest == b.dest, "differ in attributes only");
}

/// Reachability witness: must come back FAILED.
#[cfg_attr(kani, kani::proof)]
#[cfg_attr(replay, test)]
fn reach_witness() {
    let a = any_args();
    let m = build(a);
    let _ = reported(&m);
    assert!(false, "reach witness");
}

// ---- serde layer ------------------------------------------------------------------------

mod rec {
    use serde::ser::{self, Impossible};
    use std::fmt;

    #[derive(Debug)]
    pub struct E;
    impl fmt::Display for E {
        fn fmt(&self, _: &mut fmt::Formatter<'_>) -> fmt::Result {
            Ok(())
        }
    }
    impl std::error::Error for E {}
    impl ser::Error for E {
        fn custom<T: fmt::Display>(_: T) -> Self {
            E
        }
    }
    impl serde::de::Error for E {
        fn custom<T: fmt::Display>(_: T) -> Self {
            E
        }
    }

    /// What a `Move` emitted: (times newtype_struct("Move") was entered, the u32 inside)
    #[derive(Default)]
    pub struct Recorder {
        pub newtype_named_move: u32,
        pub u32s: u32,
        pub value: u32,
    }

    macro_rules! refuse {
        ($($name:ident($($t:ty),*);)*) => { $(fn $name(self, $(_: $t),*) -> Result<(), E> { Err(E) })* };
    }

    impl<'a> ser::Serializer for &'a mut Recorder {
        type Ok = ();
        type Error = E;
        type SerializeSeq = Impossible<(), E>;
        type SerializeTuple = Impossible<(), E>;
        type SerializeTupleStruct = Impossible<(), E>;
        type SerializeTupleVariant = Impossible<(), E>;
        type SerializeMap = Impossible<(), E>;
        type SerializeStruct = Impossible<(), E>;
        type SerializeStructVariant = Impossible<(), E>;

        fn serialize_u32(self, v: u32) -> Result<(), E> {
            self.u32s += 1;
            self.value = v;
            Ok(())
        }
        fn serialize_newtype_struct<T: ?Sized + ser::Serialize>(
            self,
            name: &'static str,
            value: &T,
        ) -> Result<(), E> {
            if name.len() == 4 && name.as_bytes()[0] == b'M' {
                self.newtype_named_move += 1;
            }
            value.serialize(self)
        }
        refuse! {
            serialize_bool(bool); serialize_i8(i8); serialize_i16(i16); serialize_i32(i32); serialize_i64(i64);
            serialize_u8(u8); serialize_u16(u16); serialize_u64(u64); serialize_f32(f32); serialize_f64(f64);
            serialize_char(char); serialize_str(&str); serialize_bytes(&[u8]); serialize_none(); serialize_unit();
            serialize_unit_struct(&'static str); serialize_unit_variant(&'static str, u32, &'static str);
        }
        fn serialize_some<T: ?Sized + ser::Serialize>(self, _: &T) -> Result<(), E> {
            Err(E)
        }
        fn serialize_newtype_variant<T: ?Sized + ser::Serialize>(
            self,
            _: &'static str,
            _: u32,
            _: &'static str,
            _: &T,
        ) -> Result<(), E> {
            Err(E)
        }
        fn serialize_seq(self, _: Option<usize>) -> Result<Self::SerializeSeq, E> {
            Err(E)
        }
        fn serialize_tuple(self, _: usize) -> Result<Self::SerializeTuple, E> {
            Err(E)
        }
        fn serialize_tuple_struct(self, _: &'static str, _: usize) -> Result<Self::SerializeTupleStruct, E> {
            Err(E)
        }
        fn serialize_tuple_variant(
            self,
            _: &'static str,
            _: u32,
            _: &'static str,
            _: usize,
        ) -> Result<Self::SerializeTupleVariant, E> {
            Err(E)
        }
        fn serialize_map(self, _: Option<usize>) -> Result<Self::SerializeMap, E> {
            Err(E)
        }
        fn serialize_struct(self, _: &'static str, _: usize) -> Result<Self::SerializeStruct, E> {
            Err(E)
        }
        fn serialize_struct_variant(
            self,
            _: &'static str,
            _: u32,
            _: &'static str,
            _: usize,
        ) -> Result<Self::SerializeStructVariant, E> {
            Err(E)
        }
    }

    /// Replays one `u32`, the way a self-describing format hands back what `Recorder` saw.
    pub struct Replayer(pub u32);

    impl<'de> serde::Deserializer<'de> for Replayer {
        type Error = E;
        fn deserialize_any<V: serde::de::Visitor<'de>>(self, v: V) -> Result<V::Value, E> {
            v.visit_u32(self.0)
        }
        fn deserialize_newtype_struct<V: serde::de::Visitor<'de>>(
            self,
            _: &'static str,
            v: V,
        ) -> Result<V::Value, E> {
            v.visit_newtype_struct(self)
        }
        serde::forward_to_deserialize_any! {
            bool i8 i16 i32 i64 i128 u8 u16 u32 u64 u128 f32 f64 char str string bytes byte_buf option unit
            unit_struct seq tuple tuple_struct map struct enum identifier ignored_any
        }
    }
}

/// The derived `Serialize` emits exactly one `newtype_struct("Move", u32 = as_raw())`.
#[cfg_attr(kani, kani::proof)]
#[cfg_attr(replay, test)]
fn serde_serialize_is_raw_u32() {
    use serde::Serialize;
    let a = any_args();
    print_case("serde_serialize_is_raw_u32", a);
    let m = build(a);
    let mut r = rec::Recorder::default();
    let res = m.serialize(&mut r);
    assert!(res.is_ok(), "serialising a move succeeds");
    assert!(r.newtype_named_move == 1, "one newtype struct named Move");
    assert!(r.u32s == 1, "exactly one u32 emitted");
    assert!(r.value == m.as_raw(), "the emitted u32 is the raw value");
}

/// `Deserialize` never alters what it accepts (a raw value it takes is the move with that raw value), and
/// every constructed move survives serialise-then-deserialise unchanged. (A deserialiser that rejects bit
/// patterns no constructor produces would be fine; one that rejects or alters a constructed move is not.)
#[cfg_attr(kani, kani::proof)]
#[cfg_attr(replay, test)]
fn serde_deserialize_roundtrip() {
    use serde::{Deserialize, Serialize};
    let x: u32 = kani::any();
    println!("CASE {{\"harness\":\"serde_deserialize_roundtrip\",\"raw\":{}}}", x);
    if let Ok(m) = Move::deserialize(rec::Replayer(x)) {
        assert!(m.as_raw() == x, "a deserialised move has exactly the serialised raw value");
    }
    // composed round trip on constructed moves
    let a = any_args();
    print_case("serde_deserialize_roundtrip", a);
    let m = build(a);
    let mut r = rec::Recorder::default();
    let _ = m.serialize(&mut r);
    let back = Move::deserialize(rec::Replayer(r.value));
    assert!(back.is_ok(), "a serialised move can be read back");
    assert!(back.unwrap() == m, "a move survives the serde round trip unchanged");
    kani::cover!(a.class == 3, "capture-promotion round trip");
    kani::cover!(a.class == 4, "en-passant round trip");
}
