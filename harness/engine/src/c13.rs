//! C13 — the evaluation is colour-symmetric (DESIGN §4.8). Floats are bit-precise under CBMC.

use crate::c05::{family, lone_king_has_legal, proof_eval};
use crate::geo::*;
use crate::rules::*;
use crate::sym::*;
use weechess_core::*;
use weechess_engine::eval::{Evaluation, Evaluator};

#[cfg(replay)]
use crate::kani;

/// Families where the side to move has more than a king: restricted to positions in which the mover
/// is not in check and its king has an empty, unattacked neighbour square (then a legal move exists
/// and the evaluator's terminal test cannot fire, with or without move generation).
pub fn nonterminal_stub(state: &State) -> MoveSet {
    MoveSet::new(vec![MoveResult(Move::NULL, state.clone())])
}

fn king_has_quiet_step(p: &Pos) -> bool {
    let us = p.us();
    let k = p.king_sq(us);
    let safe = geo_king(k) & !p.occ() & !crate::stubs::attack_set(&p.bb, p.them());
    safe != 0 && !attacked_ref(&p.bb, p.them(), k)
}

fn col(w: bool) -> Color {
    if w {
        Color::White
    } else {
        Color::Black
    }
}

/// mode 0: side to move is a lone king (terminal positions included); mode 1: see `king_has_quiet_step`.
/// `slice` < 8 fixes the file of the family's first man (the symbolic space is cut into eight queries
/// that run in parallel); 8 = no restriction.
fn symmetry(wtm: bool, men: &[(usize, u8)], mode: u8, which: u8, slice: u8, tag: &str) -> Evaluation {
    let p = family(wtm, men, tag);
    if slice < 8 {
        let (c, k) = men[0];
        kani::assume((p.bb[c][(k - 1) as usize].trailing_zeros() % 8) as u8 == slice);
    }
    if mode == 1 {
        kani::assume(king_has_quiet_step(&p));
    }
    let persp_white: bool = kani::any();
    let ply: usize = kani::any();
    kani::assume(ply <= 1_000_000);
    println!("CASE {{\"harness\":\"{}\",\"perspective_white\":{},\"ply\":{}}}", tag, persp_white, ply);
    let ev = Evaluator::default();
    let s = to_state(&p);
    let e = ev.evaluate(&s, col(persp_white), ply);
    if which == 0 {
        let o = ev.evaluate(&s, col(!persp_white), ply);
        assert!(e == -o, "score from one perspective is the negation of the score from the other");
    } else {
        let m = mirror(&p);
        let sm = to_state(&m);
        let em = ev.evaluate(&sm, col(!persp_white), ply);
        assert!(em == e, "the colour-mirrored position scores the same from the mirrored perspective");
    }
    e
}

macro_rules! maybe_mate_cover {
    (mate, $e:expr) => {
        kani::cover!($e.is_terminal(), "mate score in the family");
    };
    (nomate, $e:expr) => {};
}

macro_rules! sym_pair {
    ($neg:ident, $mir:ident, $wtm:expr, $men:expr, $mode:expr, $stub:path) => {
        sym_pair!($neg, $mir, $wtm, $men, $mode, $stub, nomate);
    };
    ($neg:ident, $mir:ident, $wtm:expr, $men:expr, $mode:expr, $stub:path, $mate:ident) => {
        proof_geo! {
            #[cfg_attr(kani, kani::stub(weechess_core::MoveGenerator::compute_legal_moves, $stub))]
            fn $neg() {
                let e = symmetry($wtm, $men, $mode, 0, 8, concat!("c13 ", stringify!($neg)));
                kani::cover!(e != Evaluation::EVEN, "non-zero score");
                maybe_mate_cover!($mate, e);
            }
        }
        proof_geo! {
            #[cfg_attr(kani, kani::stub(weechess_core::MoveGenerator::compute_legal_moves, $stub))]
            fn $mir() {
                let e = symmetry($wtm, $men, $mode, 1, 8, concat!("c13 ", stringify!($mir)));
                kani::cover!(e != Evaluation::EVEN, "non-zero score");
                maybe_mate_cover!($mate, e);
            }
        }
    };
}

sym_pair!(krk_btm_negation, krk_btm_mirror, false, &[(0, 4)], 0, crate::c05::legal_moves_stub, mate);
sym_pair!(kqk_wtm_negation, kqk_wtm_mirror, true, &[(1, 5)], 0, crate::c05::legal_moves_stub, mate);
sym_pair!(kpk_btm_negation, kpk_btm_mirror, false, &[(0, 1)], 0, crate::c05::legal_moves_stub);
sym_pair!(kbnk_btm_negation, kbnk_btm_mirror, false, &[(0, 3), (0, 2)], 0, crate::c05::legal_moves_stub, mate);
sym_pair!(kpkp_wtm_negation, kpkp_wtm_mirror, true, &[(0, 1), (1, 1)], 1, crate::c13::nonterminal_stub);
sym_pair!(kppk_wtm_negation, kppk_wtm_mirror, true, &[(0, 1), (0, 1)], 1, crate::c13::nonterminal_stub);
sym_pair!(krkn_btm_negation, krkn_btm_mirror, false, &[(0, 4), (1, 2)], 1, crate::c13::nonterminal_stub);
sym_pair!(kqkb_wtm_negation, kqkb_wtm_mirror, true, &[(0, 5), (1, 3)], 1, crate::c13::nonterminal_stub);
sym_pair!(kbpkn_wtm_negation, kbpkn_wtm_mirror, true, &[(0, 3), (0, 1), (1, 2)], 1, crate::c13::nonterminal_stub);

// ---- quick-tier slices ------------------------------------------------------------------------------
// Each full-family query above costs 15-20 min of SAT solving over IEEE floats. The quick tier runs
// slices that keep one part of the position concrete:
//  * bare kings, one of them on a symbolic square (negation and mirror): the king tables, the king-to-edge term and the
//    end-game interpolation with its float rounding;
//  * kings concrete (g1 / b8), one white man of each kind in turn on a symbolic square; its mirror image
//    holds the black man: the piece-square tables of every kind for both colours.
fn slice_kings_only(which: u8, tag: &str) {
    // bare kings: the white king on a symbolic square, the black king on b8 (its mirror image has the black
    // king symbolic and the white king on b1); terminal positions cannot occur with bare kings
    let wtm: bool = kani::any();
    let wk: u8 = kani::any();
    kani::assume(wk < 64 && wk != 57);
    let mut bb = [[0u64; 6]; 2];
    bb[0][K] = bit(wk);
    bb[1][K] = bit(57);
    let p = Pos { bb, wtm, rights: [false; 4], ep: NO_SQ, half: 0, full: 1 };
    kani::assume(legal_position(&p));
    print_pos(tag, &p);
    run_symmetry(&p, which, tag);
}

fn slice_one_man(kind: u8, which: u8, tag: &str) {
    // a white man; the mirrored position then holds the black man of that kind on the mirrored square,
    // so one mirror query exercises the tables of both colours
    let wtm: bool = kani::any();
    let p = crate::sym::family_kings_at(wtm, 6, 57, &[(0, kind)], false, tag);
    kani::assume(king_has_quiet_step(&p));
    run_symmetry(&p, which, tag);
}

fn run_symmetry(p: &Pos, which: u8, tag: &str) {
    let persp_white: bool = kani::any();
    let ply: usize = kani::any();
    kani::assume(ply <= 1_000_000);
    println!("CASE {{\"harness\":\"{}\",\"perspective_white\":{},\"ply\":{}}}", tag, persp_white, ply);
    let ev = Evaluator::default();
    let s = to_state(p);
    let e = ev.evaluate(&s, col(persp_white), ply);
    if which == 0 {
        let o = ev.evaluate(&s, col(!persp_white), ply);
        assert!(e == -o, "score from one perspective is the negation of the score from the other");
    } else {
        let m = mirror(p);
        let em = ev.evaluate(&to_state(&m), col(!persp_white), ply);
        assert!(em == e, "the colour-mirrored position scores the same from the mirrored perspective");
    }
    kani::cover!(e != Evaluation::EVEN, "non-zero score");
}

macro_rules! slice_harness {
    ($name:ident, $body:expr, $stub:path) => {
        proof_geo! {
            #[cfg_attr(kani, kani::stub(weechess_core::MoveGenerator::compute_legal_moves, $stub))]
            fn $name() {
                $body
            }
        }
    };
}

slice_harness!(q_kings_negation, slice_kings_only(0, "c13 q_kings_negation"), crate::c13::nonterminal_stub);
slice_harness!(q_kings_mirror, slice_kings_only(1, "c13 q_kings_mirror"), crate::c13::nonterminal_stub);
slice_harness!(q_pawn_mirror, slice_one_man(1, 1, "c13 q_pawn_mirror"), crate::c13::nonterminal_stub);
slice_harness!(q_knight_mirror, slice_one_man(2, 1, "c13 q_knight_mirror"), crate::c13::nonterminal_stub);
slice_harness!(q_bishop_mirror, slice_one_man(3, 1, "c13 q_bishop_mirror"), crate::c13::nonterminal_stub);
slice_harness!(q_rook_mirror, slice_one_man(4, 1, "c13 q_rook_mirror"), crate::c13::nonterminal_stub);
slice_harness!(q_queen_mirror, slice_one_man(5, 1, "c13 q_queen_mirror"), crate::c13::nonterminal_stub);

/// Lemma, unbounded: weighting a score commutes with negation on the real `Mul<f32>` (truncation
/// toward zero is odd), for the three weights the evaluator uses.
proof! {
    fn lemma_weighting_is_odd() {
        let x: i32 = kani::any();
        let w: u8 = kani::any();
        kani::assume(x >= -(1 << 20) && x <= (1 << 20) && w < 3);
        println!("CASE {{\"harness\":\"c13 lemma_weighting\",\"x\":{},\"w\":{}}}", x, w);
        let wt: f32 = if w == 0 { 1.0 } else if w == 1 { 0.8 } else { 0.2 };
        let a = Evaluation::from(x) * wt;
        let b = Evaluation::from(-x) * wt;
        assert!(a == -b, "weighting commutes with negation");
        kani::cover!(x == 7 && w == 1, "a value that truncates");
    }
}

proof_geo! {
    #[cfg_attr(kani, kani::stub(weechess_core::MoveGenerator::compute_legal_moves, crate::c05::legal_moves_stub))]
    fn reach_witness() {
        let p = family(false, &[(0, 4)], "c13 reach");
        let s = to_state(&p);
        let e = Evaluator::default().evaluate(&s, Color::White, 0);
        let o = Evaluator::default().evaluate(&s, Color::Black, 0);
        assert!(e == o, "reach witness");
    }
}
