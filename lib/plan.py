"""Bound tables: which harness instances make up each property's quick / thorough tier (DESIGN §4)."""
from vdriver import Inst, run_tool

PLAN = {}

# ---- C20 -------------------------------------------------------------------------------------------
_c20_fn = ("Move::by_moving", "Move::by_capturing", "Move::by_promoting", "Move::by_capture_promoting",
           "Move::by_en_passant", "Move::by_castling", "Move accessors (origin, destination, piece, color, capture, "
           "promotion, is_en_passant, is_double_pawn, castle_side, is_castle, resulting_piece, as_raw)",
           "moves::compact::{store,load,bit,set_bit}", "PieceIndex::new/piece/color", "<Move as PartialEq>::eq")
PLAN["C20"] = {
    "feature": "c20",
    "exhaustive": True,
    "bounds": "none: colour, kind 1..6, origin, destination < 64, capture kind 1..5, promotion kind 2..5, constructor "
              "class and castling side are all symbolic; serde layer: all 2^32 raw values",
    "outside": ["the CBOR byte codec (ciborium) is trusted to round-trip a u32, not decided (DESIGN §2 probe 18)"],
    "trusted": ["ciborium round-trips u32", "rustc / kani-compiler / CBMC"],
    "assumptions": ["en-passant constructor is only applied to pawns", "capture kinds are the five capturable kinds"],
    "insts": [
        Inst("c20::attrs_roundtrip", sub="C20 attributes", timeout=300, functions=_c20_fn, bounds="all constructor arguments symbolic"),
        Inst("c20::eq_iff_attrs", sub="C20 equality", timeout=300, functions=_c20_fn, bounds="two independent symbolic constructions"),
        Inst("c20::serde_serialize_is_raw_u32", sub="C20 serde", timeout=300,
             functions=("<Move as serde::Serialize>::serialize (derive)",), bounds="all constructor arguments symbolic"),
        Inst("c20::serde_deserialize_roundtrip", sub="C20 serde", timeout=300,
             functions=("<Move as serde::Deserialize>::deserialize (derive)",), bounds="all 2^32 raw values"),
        Inst("c20::reach_witness", sub="vacuity", timeout=300, expect="fail"),
    ],
}


# ---- C02 -------------------------------------------------------------------------------------------
_c02_fn = ("State::by_performing_move", "State::new", "Board::new", "Board::piece_map/piece_occupancy/occupancy/colored_occupancy",
           "Move accessors", "Move constructors (via the harness's canonical builder)", "Square::offset", "BitBoard::set/test",
           "Color::backward/opposing_color", "ArrayMap index/clone")
PLAN["C02"] = {
    "feature": "c02",
    "exhaustive": False,
    "bounds": "no bound on the position: twelve free bitboards (disjoint, one king each, no pawn on ranks 1/8), symbolic side, "
              "rights (consistent with homes), en-passant target (behind a just-double-stepped pawn), clocks < 2^32, symbolic "
              "move coordinates restricted to pseudo-legal moves of a legal position; sequences by induction on the "
              "legal-position invariant (asserted on the successor of every legal move)",
    "outside": ["clocks >= 2^32", "State::by_performing_moves (runs compute_legal_moves; its three-way match is read, not decided)",
                "moves that are not pseudo-legal in the position"],
    "trusted": ["rustc / kani-compiler / CBMC", "reference rules in harness/common/rules.rs"],
    "assumptions": ["position is a legal position (invariant of DESIGN §4.2)", "move is pseudo-legal per the reference rules"],
    "insts": [
        Inst("c02::step_pieces", sub="C02.a/b", timeout=1200, mem_gb=6, functions=_c02_fn, bounds="any legal position, any N/B/R/Q move"),
        Inst("c02::step_king", sub="C02.a/b", timeout=1200, mem_gb=6, functions=_c02_fn, bounds="any legal position, any king move incl. castling"),
        Inst("c02::step_pawn", sub="C02.a/b", timeout=1200, mem_gb=6, functions=_c02_fn, bounds="any legal position, any pawn move incl. ep and promotion"),
        Inst("c02::ep_without_target_is_refused", sub="C02.a", timeout=600, functions=("State::by_performing_move",), bounds="any position without ep target"),
        Inst("c02::coordinate_query", sub="C02.c", timeout=600, functions=("MoveQuery::by_moving_from_to", "MoveQuery::set_promotion", "MoveQuery::test"),
             bounds="any position, any pseudo-legal move, any coordinate triple"),
        Inst("c02::reach_witness", sub="vacuity", timeout=600, expect="fail"),
    ],
}

# ---- C09 -------------------------------------------------------------------------------------------
def gen_tables(workdir):
    rc, out = run_tool("tabledump", ["/verif/harness/core/src/gen_tables.rs"], workdir)
    if rc != 0:
        return False, "tabledump failed (hook attacks::verif_hooks missing or /repo does not build):\n" + out[-2000:]
    return True, ""


_c09_stub_note = ("private initialisers compute_{rook,bishop}_magic_table, compute_{rook,bishop}_slide_masks, "
                  "compute_{knight,king,pawn}_attacks replaced by tables dumped from a native run of those same "
                  "initialisers on this tree (tools/tabledump, regenerated on this run)")
_c09_fn = ("AttackGenerator::compute_rook_attacks", "AttackGenerator::compute_bishop_attacks",
           "AttackGenerator::compute_queen_attacks", "lazy_static deref of ROOK/BISHOP_MAGIC_TABLE, *_SLIDE_MASKS, *_MAGICS",
           "ArrayMap::index", "Vec::index (bounds check)")
PLAN["C09"] = {
    "feature": "c09",
    "pregen": [gen_tables],
    "exhaustive": True,
    "bounds": "none on the inputs: all 2^64 occupancies for each of the 64 squares (sliders), all squares and both colours "
              "(leapers); tables precomputed by the real initialisers run natively",
    "outside": ["the table *initialisers* are executed natively, not symbolically (closed, input-free computations)"],
    "trusted": ["a native run of the input-free initialisers yields what the same code means (deterministic, no unsafe)",
                "rustc / kani-compiler / CBMC"],
    "assumptions": [_c09_stub_note],
    "insts": [Inst("gen_tables::sq%d::sliders" % i, sub="C09 sliders", timeout=900, mem_gb=3,
                   functions=_c09_fn, stubs=("table initialisers -> natively dumped tables",),
                   bounds="square %d, all 2^64 occupancies" % i) for i in range(64)] + [
        Inst("c09::leapers", sub="C09 leapers", timeout=600, stubs=("table initialisers -> natively dumped tables",),
             functions=("AttackGenerator::compute_knight_attacks", "AttackGenerator::compute_king_attacks",
                        "AttackGenerator::compute_pawn_attacks"), bounds="all 64 squares, both colours"),
        Inst("c09::dispatch_d4", sub="C09 dispatcher", timeout=900, stubs=("table initialisers -> natively dumped tables",),
             functions=("AttackGenerator::compute",), bounds="square d4, all kinds, colours and occupancies"),
        Inst("c09::lemma_bitboard_shift", sub="C09 lemma", timeout=600, unwind=9, functions=("BitBoard::shift",),
             bounds="any board, |file|,|rank| <= 7"),
        Inst("c09::lemma_square_offset", sub="C09 lemma", timeout=600, functions=("Square::offset",),
             bounds="any square, |file|,|rank| <= 7"),
        Inst("c09::reach_witness", sub="vacuity", timeout=600, expect="fail"),
    ],
}


def setup():
    return 0
