//! Native stand-in for the `kani` crate, used when the harness crate is built with `--cfg replay`
//! (DESIGN §3.5): the harness functions become `#[test]`s, `kani::any()` hands back the values the
//! solver chose (taken from CBMC's counterexample trace, env `VERIF_REPLAY`), no stub is applied, and
//! the real code of /repo runs on the real tables in whatever profile cargo was asked for.
use std::cell::RefCell;
use std::collections::VecDeque;

thread_local! {
    static QUEUE: RefCell<Option<VecDeque<Vec<u8>>>> = RefCell::new(None);
}

fn load() -> VecDeque<Vec<u8>> {
    let s = std::env::var("VERIF_REPLAY").unwrap_or_default();
    s.split(';')
        .filter(|p| !p.is_empty())
        .map(|p| p.split(',').map(|b| u8::from_str_radix(b, 16).expect("hex byte")).collect())
        .collect()
}

fn next(n: usize) -> Vec<u8> {
    QUEUE.with(|q| {
        let mut q = q.borrow_mut();
        if q.is_none() {
            *q = Some(load());
        }
        match q.as_mut().unwrap().pop_front() {
            None => panic!("REPLAY-EXHAUSTED: harness asked for more symbolic values than the trace holds"),
            Some(v) => {
                if v.len() != n {
                    panic!("REPLAY-MISMATCH: trace value has {} bytes, harness asked for {}", v.len(), n);
                }
                v
            }
        }
    })
}

fn peek_len() -> Option<usize> {
    QUEUE.with(|q| {
        let mut q = q.borrow_mut();
        if q.is_none() {
            *q = Some(load());
        }
        q.as_ref().unwrap().front().map(|v| v.len())
    })
}

pub trait Arbitrary: Sized {
    fn any() -> Self;
}

macro_rules! int_arb {
    ($($t:ty),*) => {$(
        impl Arbitrary for $t {
            fn any() -> Self {
                let b = next(std::mem::size_of::<$t>());
                let mut a = [0u8; std::mem::size_of::<$t>()];
                a.copy_from_slice(&b);
                <$t>::from_le_bytes(a)
            }
        }
    )*};
}
int_arb!(u8, u16, u32, u64, u128, usize, i8, i16, i32, i64, i128, isize);

impl Arbitrary for bool {
    fn any() -> Self {
        let b = u8::any();
        assume(b < 2);
        b == 1
    }
}

impl<T: Arbitrary + Copy + Default, const N: usize> Arbitrary for [T; N] {
    fn any() -> Self {
        // Kani draws primitive arrays as one nondet object; accept both encodings
        let whole = N * std::mem::size_of::<T>();
        let mut out = [T::default(); N];
        if N > 1 && peek_len() == Some(whole) {
            let bytes = next(whole);
            let sz = std::mem::size_of::<T>();
            let mut rest: VecDeque<Vec<u8>> = (0..N).map(|i| bytes[i * sz..(i + 1) * sz].to_vec()).collect();
            QUEUE.with(|q| {
                let mut q = q.borrow_mut();
                let q = q.as_mut().unwrap();
                while let Some(v) = rest.pop_back() {
                    q.push_front(v);
                }
            });
        }
        for o in out.iter_mut() {
            *o = T::any();
        }
        out
    }
}

pub fn any<T: Arbitrary>() -> T {
    T::any()
}

pub fn assume(c: bool) {
    if !c {
        panic!("REPLAY-ASSUME-VIOLATED: the replayed values do not satisfy a harness assumption");
    }
}

#[macro_export]
macro_rules! __verif_cover {
    ($($t:tt)*) => {{
        let _ = ($($t)*);
    }};
}
pub use crate::__verif_cover as cover;
