"""Bound tables: which harness instances make up each property's quick / thorough tier (DESIGN §4)."""
import os
from vdriver import Inst, run_tool, ROOT, REPO

PLAN = {}

GEO_STUBS = ("AttackGenerator::compute_{rook,bishop,queen,knight,king,pawn}_attacks -> loop-free geometry (discharged by C09)",)

# ---- C10 -------------------------------------------------------------------------------------------
_c10_fn = ("Board::colored_attacks", "Board::colored_pawn_attacks", "Board::is_check", "State::is_check", "Board::attack_map (OnceCell)",
           "AttackMap::from_occupancy", "AttackGenerator::compute (dispatcher)", "BitBoard::pop/first_one/set_raw/test", "Board::new")
def _c10_att(name, u, tiers, timeout, mem):
    return Inst("c10::" + name, sub="C10.a", tiers=tiers, unwind=8, unwindset=(("from_occupancy#0", u + 2),), timeout=timeout, mem_gb=mem,
                functions=_c10_fn, stubs=GEO_STUBS,
                bounds="arbitrary placement (one king each, disjoint, no pawn on ranks 1/8), <= %d men per kind and colour, symbolic target square" % u)
PLAN["C10"] = {
    "feature": "c10",
    "exhaustive": False,
    "bounds": "arbitrary placements with at most u men per kind and colour (quick u = 2, thorough u = 3: up to 32 men, never more "
              "than three alike); symbolic target square; programs [clone] q1 [clone] q2 q2 over symbolic queries (<= 1 man per kind); "
              "piece_at lemma: no bound",
    "outside": ["more than u men of one kind and colour (e.g. eight pawns)"],
    "trusted": ["rustc / kani-compiler / CBMC", "square-centric reference attacked_ref (harness/common/rules.rs)"],
    "assumptions": [],
    "insts": [
        _c10_att("attacks_white_u2", 2, ("quick", "thorough"), 1200, 6),
        _c10_att("attacks_black_u2", 2, ("quick", "thorough"), 1200, 6),
        _c10_att("attacks_white_u3", 3, ("thorough",), 3600, 12),
        _c10_att("attacks_black_u3", 3, ("thorough",), 3600, 12),
        Inst("c10::lemma_piece_at", sub="C10.c", unwind=8, timeout=600, functions=("Board::piece_at", "Board::occupancy", "Board::vacancy", "Board::new"),
             bounds="arbitrary placement, symbolic square; no bound"),
        Inst("c10::order_and_clone_independence", sub="C10.b", tiers=("thorough",), unwind=8, unwindset=(("from_occupancy#0", 3),), timeout=1800, mem_gb=16,
             functions=_c10_fn + ("<Board as Clone>::clone", "<Board as PartialEq>::eq"), stubs=GEO_STUBS,
             bounds="<= 1 man per kind and colour; program [clone] q1 [clone] q2 q2 with symbolic queries q1, q2 from {4 attack-set queries, 2 check queries} and symbolic clone points"),
        Inst("c10::reach_witness", sub="vacuity", unwind=8, unwindset=(("from_occupancy#0", 3),), timeout=600, expect="fail"),
    ],
}

# ---- C12 -------------------------------------------------------------------------------------------
_c12_parse = ("<San as TryFromNotation<MoveQuery>>::try_from_notation", "notation::try_from_notation", "MoveQuery setters", "MoveQuery::by_castling")
PLAN["C12"] = {
    "feature": "c12",
    "exhaustive": False,
    "bounds": "every SAN spelling assembled from optional components (piece letter, origin file/rank, 'x', destination, '='?, "
              "promotion, '+'/'#'), text <= 9 bytes; matcher and coordinate text: any position (unbounded placement), any "
              "pseudo-legal move value of any constructor class",
    "outside": ["position-level uniqueness of a SAN spelling among the *legal* moves of a position (needs the legal move list; see "
                "DESIGN §4.7)", "the `bestmove` line printed by uci.rs"],
    "trusted": ["rustc / kani-compiler / CBMC"],
    "assumptions": ["moves are pseudo-legal moves of a structurally consistent position (so that move values are the ones the generator builds)"],
    "insts": [
        Inst("c12::san_grammar_roundtrip", sub="C12.a", unwind=12, timeout=1200, mem_gb=8, functions=_c12_parse, bounds="all spellings of the grammar, <= 9 bytes"),
        Inst("c12::san_castle_texts", sub="C12.a", unwind=12, timeout=600, functions=_c12_parse + ("MoveQuery::test", "Move::by_castling"), bounds="O-O / O-O-O with optional +/#"),
        Inst("c12::matcher_semantics", sub="C12.b", unwind=12, timeout=1800, mem_gb=8, functions=_c12_parse + ("MoveQuery::test",),
             bounds="all spellings x any pseudo-legal move of any position"),
        Inst("c12::lan_text", sub="C12.c", unwind=6, timeout=1200, mem_gb=8,
             functions=("<Lan as IntoNotation<Move>>::into_notation", "<Square as Display>::fmt", "<File as Display>::fmt", "<Rank as Display>::fmt",
                        "Square::try_from(&str)", "MoveQuery::by_moving_from_to", "MoveQuery::set_promotion", "MoveQuery::test"),
             bounds="any pseudo-legal move of any position; text written into a fixed 8-byte sink"),
        Inst("c12::reach_witness", sub="vacuity", unwind=12, timeout=600, expect="fail"),
    ],
}

# ---- C14 -------------------------------------------------------------------------------------------
_c14_fn = ("<San as TryFromNotation<MoveQuery>>::try_from_notation", "notation::try_from_notation")
PLAN["C14"] = {
    "feature": "c14",
    "exhaustive": False,
    "bounds": "SAN: every valid UTF-8 string of <= 6 bytes (quick) / <= 8 bytes (thorough); Square::try_from: <= 4 bytes; FEN: the "
              "field parsers behind the regex gate on every input the gate admits, placement = a concrete run of 31 (resp. 7) eights followed by every symbolic "
              "tail of 15/16 (18) bytes and every placement <= 24 bytes (quick); every placement <= 48 bytes and 54-byte digit floods (thorough); castling field <= 4 bytes",
    "outside": ["the UCI command loop (Client::exec owns stdin and spawns threads)", "the regex gate itself (Regex::new at run time)",
                "longer strings"],
    "trusted": ["rustc / kani-compiler / CBMC", "regex crate: only strings matching FEN_REGEX reach the field parsers"],
    "assumptions": ["FEN field inputs are restricted to what regex group 1 / group 4 admit"],
    "insts": [
        Inst("c14::san_any_string_le4", sub="C14 SAN", unwind=7, timeout=600, functions=_c14_fn, bounds="all valid UTF-8 strings <= 4 bytes"),
        Inst("c14::san_any_string_le6", sub="C14 SAN", unwind=9, timeout=1800, mem_gb=8, functions=_c14_fn, bounds="all valid UTF-8 strings <= 6 bytes"),
        Inst("c14::san_any_string_le8", sub="C14 SAN", tiers=("thorough",), unwind=11, timeout=7200, mem_gb=16, functions=_c14_fn, bounds="all valid UTF-8 strings <= 8 bytes"),
        Inst("c14::square_any_string_le4", sub="C14 square", unwind=7, timeout=600, functions=("Square::try_from(&str)", "File::from_char", "Rank::from_char"), bounds="all valid UTF-8 strings <= 4 bytes"),
        Inst("c14::fen_placement_flood31_tail15", sub="C14 FEN", unwind=50, unwindset=(("Board as std::convert::From", 66), ("fen_placement_after_flood", 18)), timeout=3600, mem_gb=12,
             functions=("Board::try_parse (via hook)", "PieceIndex::try_parse", "Board::from(&ArrayMap)", "Square::try_from(u8)"),
             bounds="thirty-one '8's followed by every tail of 15 bytes over the regex alphabet with 7 slashes"),
        Inst("c14::fen_placement_flood31_tail16", sub="C14 FEN", unwind=50, unwindset=(("Board as std::convert::From", 66), ("fen_placement_after_flood", 18)), timeout=3600, mem_gb=12,
             functions=("Board::try_parse (via hook)", "PieceIndex::try_parse", "Board::from(&ArrayMap)", "Square::try_from(u8)"),
             bounds="thirty-one '8's followed by every tail of 16 bytes over the regex alphabet with 7 slashes"),
        Inst("c14::fen_placement_flood7_tail18", sub="C14 FEN", unwind=28, unwindset=(("Board as std::convert::From", 66), ("fen_placement_after_flood", 20)), timeout=3600, mem_gb=12,
             functions=("Board::try_parse (via hook)", "PieceIndex::try_parse", "Board::from(&ArrayMap)", "Square::try_from(u8)"),
             bounds="seven '8's followed by every tail of 18 bytes over the regex alphabet with 7 slashes"),
        Inst("c14::fen_placement_le24", sub="C14 FEN", unwind=26, unwindset=(("Board as std::convert::From", 66), ("from_rS", 66)), timeout=3600, mem_gb=12,
             functions=("Board::try_parse (via hook)", "PieceIndex::try_parse", "Board::from(&ArrayMap)", "Square::try_from(u8)"), bounds="placement fields <= 24 bytes over the regex alphabet, 7 slashes"),
        Inst("c14::fen_placement_le48", sub="C14 FEN", tiers=("thorough",), unwind=50, unwindset=(("Board as std::convert::From", 66),), timeout=7200, mem_gb=16,
             functions=("Board::try_parse (via hook)", "PieceIndex::try_parse", "Board::from(&ArrayMap)", "Square::try_from(u8)"), bounds="placement fields <= 48 bytes over the regex alphabet, 7 slashes"),
        Inst("c14::fen_placement_digit_flood", sub="C14 FEN", tiers=("thorough",), unwind=56, unwindset=(("Board as std::convert::From", 66),), timeout=3600, mem_gb=12,
             functions=("Board::try_parse (via hook)", "Board::from(&ArrayMap)"), bounds="54-byte placement fields: a run of 40 digits then seven one-digit ranks, all digits symbolic"),
        Inst("c14::fen_castle_field", sub="C14 FEN", unwind=7, timeout=600, functions=("ArrayMap<Color, CastleRights>::try_parse (via hook)",), bounds="castling fields <= 4 bytes of [KQkq|]"),
        Inst("c14::reach_witness", sub="vacuity", unwind=7, timeout=600, expect="fail"),
    ],
}

# ---- C15 -------------------------------------------------------------------------------------------
_c15_fn = ("TranspositionTableAccess::with_tables/insert/find/entries/max_entries", "TranspositionTable::with_bucket_count/insert/find/entries/max_entries",
           "TranspositionBucket::empty/find/insert_or_replace", "TranspositionInsertionResult::inserted", "RwLock read/write (sequential model)",
           "searcher::verif_hooks::{Table, Entry} (forwarding wrapper)")
PLAN["C15"] = {
    "feature": "c15",
    "exhaustive": False,
    "bounds": "sequential semantics: every history of <= 10 inserts + one lookup on 1 table x 1 bucket (forces the full-bucket "
              "replacement path); every history of <= 2 inserts + lookup on 1x2 and of 1 insert + lookup on 2x1, 3x1 (quick), 2x2 (thorough) (routing with adversarially aligned "
              "keys; longer routed histories exhaust memory: symbolic routing through heap-allocated tables); one insert + lookups from an arbitrary bucket satisfying the representation invariant (histories of any "
              "length on one bucket, by induction)",
    "outside": ["thread interleavings: Kani has no thread model; every operation of TranspositionTableAccess holds exactly one RwLock "
                "for its whole duration, so concurrent behaviour is a linearisation of the sequential behaviour decided here (argument from reading)",
                "tables with more than 3 tables or 2 buckets per table (3 x 5 with a single insert exhausted 24 GB)"],
    "trusted": ["rustc / kani-compiler / CBMC", "Kani's sequential model of std::sync::RwLock"],
    "assumptions": ["entries carry moves built by Move::by_moving with symbolic colour/kind/squares; depth fields < 2^16"],
    "insts": [
        Inst("c15::history_1x1_n6", crate="engine", sub="C15.a", tiers=("quick",), unwind=10, timeout=3600, mem_gb=6, functions=_c15_fn, bounds="1x1, <= 6 inserts, symbolic keys/entries/query"),
        Inst("c15::history_1x1_n9", crate="engine", sub="C15.a", tiers=("thorough",), unwind=12, timeout=3600, mem_gb=12, functions=_c15_fn, bounds="1x1, <= 9 inserts, symbolic keys/entries/query"),
        Inst("c15::history_1x1_n10", crate="engine", sub="C15.a", tiers=("thorough",), unwind=13, timeout=7200, mem_gb=16, functions=_c15_fn, bounds="1x1, <= 10 inserts"),
        Inst("c15::routed_2x2_n1", crate="engine", sub="C15.a", tiers=("thorough",), unwind=10, timeout=3600, mem_gb=24, functions=_c15_fn, bounds="2 tables x 2 buckets, <= 1 insert + lookup"),
        Inst("c15::routed_3x1_n1", crate="engine", sub="C15.a", unwind=10, timeout=3600, mem_gb=20, functions=_c15_fn, bounds="3 tables x 1 bucket (a table count that is not a power of two), <= 1 insert + lookup"),
        Inst("c15::routed_1x2_n2", crate="engine", sub="C15.a", unwind=10, timeout=3600, mem_gb=14, functions=_c15_fn, bounds="1 x 2, <= 2 inserts + lookup"),
        Inst("c15::routed_2x1_n1", crate="engine", sub="C15.a", unwind=10, timeout=3600, mem_gb=14, functions=_c15_fn, bounds="2 x 1, <= 1 insert + lookup"),
        Inst("c15::step_from_arbitrary_bucket", crate="engine", sub="C15.b", unwind=10, timeout=3600, mem_gb=12, functions=_c15_fn + ("verif_hooks::Table::from_slots/slot",),
             bounds="arbitrary bucket (8 symbolic slots under the representation invariant), one insert, symbolic lookups"),
        Inst("c15::reach_witness", crate="engine", sub="vacuity", unwind=10, timeout=600, expect="fail"),
    ],
}

# ---- C20 -------------------------------------------------------------------------------------------
_c20_fn = ("Move::by_moving", "Move::by_capturing", "Move::by_promoting", "Move::by_capture_promoting",
           "Move::by_en_passant", "Move::by_castling", "Move accessors (origin, destination, piece, color, capture, "
           "promotion, is_en_passant, is_double_pawn, castle_side, is_castle, resulting_piece, as_raw)",
           "moves::compact::{store,load,bit,set_bit}", "PieceIndex::new/piece/color", "<Move as PartialEq>::eq")
PLAN["C20"] = {
    "feature": "c20",
    "exhaustive": True,
    "bounds": "none: colour, kind 1..6, origin, destination < 64, capture kind 1..5, promotion kind 2..5, constructor "
              "class and castling side are all symbolic; serde layer: all 2^32 raw values",
    "outside": ["the CBOR byte codec (ciborium) is trusted to round-trip a u32, not decided (DESIGN §2 probe 18)"],
    "trusted": ["ciborium round-trips u32", "rustc / kani-compiler / CBMC"],
    "assumptions": ["en-passant constructor is only applied to pawns", "capture kinds are the five capturable kinds"],
    "insts": [
        Inst("c20::attrs_roundtrip", sub="C20 attributes", timeout=300, functions=_c20_fn, bounds="all constructor arguments symbolic"),
        Inst("c20::eq_iff_attrs", sub="C20 equality", timeout=300, functions=_c20_fn, bounds="two independent symbolic constructions"),
        Inst("c20::serde_serialize_is_raw_u32", sub="C20 serde", timeout=300,
             functions=("<Move as serde::Serialize>::serialize (derive)",), bounds="all constructor arguments symbolic"),
        Inst("c20::serde_deserialize_roundtrip", sub="C20 serde", timeout=300,
             functions=("<Move as serde::Deserialize>::deserialize (derive)",), bounds="all 2^32 raw values"),
        Inst("c20::reach_witness", sub="vacuity", timeout=300, expect="fail"),
    ],
}


# ---- C01 -------------------------------------------------------------------------------------------
_c01a_fn = ("PseudoLegalMove::new", "PseudoLegalMove::try_as_legal_move", "State::by_performing_move", "Board::new", "Board::colored_attacks",
            "AttackMap::from_occupancy", "AttackGenerator::compute (dispatcher)", "Board::piece_occupancy")
_c01b_fn = ("MoveGenerator::compute_psuedo_legal_moves_into", "MoveGenerator::compute_{pawn,knight,king,bishop,rook,queen}_moves",
            "GameStateHelper::{expand_moves,own_piece,own_pieces,opposing_pieces,opposing_attacks,own_castle_rights,own_backrank_mask,own_pawn_home_rank_mask}",
            "Board::piece_at", "Board::colored_attacks", "AttackMap::from_occupancy", "BitBoard::shift/iter_ones", "Move constructors",
            "CASTLE_PATH_MASKS / CASTLE_CHECK_MASKS")
PUSH_STUB = ("Vec::push -> write below capacity, asserts len < capacity (no reallocation path)",)


def _c01_filter(name, u, tiers, timeout, mem):
    return Inst("c01::" + name, sub="C01.a", tiers=tiers, unwind=8, unwindset=(("from_occupancy#0", u + 2),), timeout=timeout, mem_gb=mem,
                functions=_c01a_fn, stubs=GEO_STUBS,
                bounds="any legal position with <= %d opposing men per kind (own side unbounded), any candidate move of the class" % u)


def _c01_gen(name, own_max, dests, tiers, timeout, mem, maxlen, opp_max=1):
    """own_max: most own men of one kind; dests: largest destination count of one man; maxlen: MAX of the family."""
    us = (
        ("expand_moves", dests + 2),
        ("compute_pawn_moves", 6),
        ("compute_knight_moves", own_max + 2), ("compute_bishop_moves", own_max + 2), ("compute_rook_moves", own_max + 2),
        ("compute_queen_moves", own_max + 2), ("compute_king_moves", 4),
        ("from_occupancy#0", max(own_max, opp_max) + 2), ("from_occupancy#1", 8),
        ("piece_at#0", 8), ("piece_at#1", 4),
        ("find_in_list", maxlen + 2),
        ("family", 6),
    )
    return Inst("c01::" + name, sub="C01.b", tiers=tiers, unwind=max(dests + 2, 8), unwindset=us, nomem=True, timeout=timeout, mem_gb=mem,
                functions=_c01b_fn, stubs=GEO_STUBS + PUSH_STUB,
                bounds="family %s: kinds and side concrete, squares (and rights / ep target where present) symbolic; legal positions" % name)


PLAN["C01"] = {
    "feature": "c01",
    "exhaustive": False,
    "bounds": "a. legality filter: any legal position with <= u opposing men per kind (quick u = 2, thorough u = 3), every candidate move; "
              "b. candidate generator: families of kings + <= 3 men with concrete kinds and side, symbolic squares/rights/ep; "
              "glue lemma legal => candidate: no bound. The filter loop of compute_legal_moves_into and perft are argued, not decided.",
    "outside": ["more men on the generating side than the family's", "a queen on the generating side (the K+Q family, 27 destinations, ran 37 min and exhausted 16 GB per query; rook and bishop families cover both ray kinds)", "the six-line filter loop of compute_legal_moves_into, MoveGenerationBuffer, "
                "MoveSet and the perft walk (each MoveResult carries a whole State; pushing them at a symbolic index exhausts memory, DESIGN §2 probe 23)"],
    "trusted": ["rustc / kani-compiler / CBMC", "reference rules (harness/common/rules.rs)"],
    "assumptions": ["positions are legal positions (invariant of the property's quantifier)"],
    "insts": [
        _c01_filter("filter_pieces_white_u2", 2, ("quick", "thorough"), 3600, 2.5),
        _c01_filter("filter_pieces_black_u2", 2, ("quick", "thorough"), 3600, 2.5),
        _c01_filter("filter_king_white_u2", 2, ("quick", "thorough"), 3600, 2.5),
        _c01_filter("filter_king_black_u2", 2, ("quick", "thorough"), 3600, 2.5),
        _c01_filter("filter_pawn_white_u2", 2, ("quick", "thorough"), 3600, 2.5),
        _c01_filter("filter_pawn_black_u2", 2, ("quick", "thorough"), 3600, 2.5),
        _c01_filter("filter_pieces_white_u3", 3, ("thorough",), 7200, 6),
        _c01_filter("filter_pieces_black_u3", 3, ("thorough",), 7200, 6),
        _c01_filter("filter_king_white_u3", 3, ("thorough",), 7200, 6),
        _c01_filter("filter_king_black_u3", 3, ("thorough",), 7200, 6),
        _c01_filter("filter_pawn_white_u3", 3, ("thorough",), 7200, 6),
        _c01_filter("filter_pawn_black_u3", 3, ("thorough",), 7200, 6),
        Inst("c01::lemma_legal_moves_are_candidates", sub="C01 glue", timeout=1800, mem_gb=4, functions=("(reference only: rules::legal_ref, rules::gen_pseudo)",),
             bounds="any legal position, any coordinates; no bound"),
        _c01_gen("gen_kk_white_sound", 1, 8, ('thorough',), 3600, 6, 8),
        _c01_gen("gen_kk_white_complete", 1, 8, ('thorough',), 3600, 6, 8),
        _c01_gen("gen_kk_black_sound", 1, 8, ('thorough',), 3600, 6, 8),
        _c01_gen("gen_kk_black_complete", 1, 8, ('thorough',), 3600, 6, 8),
        _c01_gen("gen_kn_k_white_sound", 1, 8, ('thorough',), 3600, 10, 16),
        _c01_gen("gen_kn_k_white_complete", 1, 8, ('thorough',), 3600, 10, 16),
        _c01_gen("gen_kn_k_black_sound", 1, 8, ('thorough',), 3600, 10, 16),
        _c01_gen("gen_kn_k_black_complete", 1, 8, ('thorough',), 3600, 10, 16),
        _c01_gen("gen_kn_kn_white_sound", 1, 8, ('thorough',), 3600, 12, 16),
        _c01_gen("gen_kn_kn_white_complete", 1, 8, ('thorough',), 3600, 12, 16),
        _c01_gen("gen_knn_k_white_sound", 2, 8, ('thorough',), 7200, 14, 24),
        _c01_gen("gen_knn_k_white_complete", 2, 8, ('thorough',), 7200, 14, 24),
        _c01_gen("gen_kpp_k_black_sound", 2, 8, ('thorough',), 7200, 14, 16),
        _c01_gen("gen_kpp_k_black_complete", 2, 8, ('thorough',), 7200, 14, 16),
        _c01_gen("gen_kr_k_white_sound", 1, 14, ('thorough',), 7200, 14, 22),
        _c01_gen("gen_kr_k_white_complete", 1, 14, ('thorough',), 7200, 14, 22),
        _c01_gen("gen_kr_k_black_sound", 1, 14, ('thorough',), 7200, 14, 22),
        _c01_gen("gen_kr_k_black_complete", 1, 14, ('thorough',), 7200, 14, 22),
        _c01_gen("gen_kb_k_white_sound", 1, 13, ('thorough',), 7200, 14, 21),
        _c01_gen("gen_kb_k_white_complete", 1, 13, ('thorough',), 7200, 14, 21),
        _c01_gen("gen_kb_k_black_sound", 1, 13, ('thorough',), 7200, 14, 21),
        _c01_gen("gen_kb_k_black_complete", 1, 13, ('thorough',), 7200, 14, 21),
        _c01_gen("gen_kp_kn_white_sound", 1, 8, ('thorough',), 3600, 13, 16),
        _c01_gen("gen_kp_kn_white_complete", 1, 8, ('thorough',), 3600, 13, 16),
        _c01_gen("gen_kp_kn_black_sound", 1, 8, ('thorough',), 3600, 13, 16),
        _c01_gen("gen_kp_kn_black_complete", 1, 8, ('thorough',), 3600, 13, 16),
        _c01_gen("gen_kp_kp_ep_white_sound", 1, 8, ('thorough',), 3600, 13, 12),
        _c01_gen("gen_kp_kp_ep_white_complete", 1, 8, ('thorough',), 3600, 13, 12),
        _c01_gen("gen_kp_kp_ep_black_sound", 1, 8, ('thorough',), 3600, 13, 12),
        _c01_gen("gen_kp_kp_ep_black_complete", 1, 8, ('thorough',), 3600, 13, 12),
        _c01_gen("gen_castle_white_sound", 2, 14, ('thorough',), 3600, 7, 40),
        _c01_gen("gen_castle_white_complete", 2, 14, ('quick', 'thorough'), 3600, 7, 40),
        _c01_gen("gen_castle_black_sound", 2, 14, ('thorough',), 3600, 7, 40),
        _c01_gen("gen_castle_black_complete", 2, 14, ('quick', 'thorough'), 3600, 7, 40),
        _c01_gen("gen_q_kp_kn_white_sound", 1, 8, ("thorough",), 3600, 8, 16),
        _c01_gen("gen_q_kp_kn_white_complete", 1, 8, ("thorough",), 3600, 8, 16),
        _c01_gen("gen_q_kp_kn_black_sound", 1, 8, ("thorough",), 3600, 8, 16),
        _c01_gen("gen_q_kp_kn_black_complete", 1, 8, ("thorough",), 3600, 8, 16),
        _c01_gen("gen_q_kp_kp_ep_white_sound", 1, 8, ("thorough",), 3600, 8, 12),
        _c01_gen("gen_q_kp_kp_ep_white_complete", 1, 8, ("thorough",), 3600, 8, 12),
        _c01_gen("gen_q_kp_kp_ep_black_sound", 1, 8, ("thorough",), 3600, 8, 12),
        _c01_gen("gen_q_kp_kp_ep_black_complete", 1, 8, ("thorough",), 3600, 8, 12),
        _c01_gen("gen_q_kn_kp_white_sound", 1, 8, ('quick', 'thorough'), 3600, 5, 16),
        _c01_gen("gen_q_kn_kp_white_complete", 1, 8, ('quick', 'thorough'), 3600, 5, 16),
        _c01_gen("gen_q_kn_kp_black_complete", 1, 8, ('quick', 'thorough'), 3600, 5, 16),
        _c01_gen("gen_q_kb_kp_white_complete", 1, 13, ('quick', 'thorough'), 3600, 8, 21),
        _c01_gen("gen_q_kb_kp_black_sound", 1, 13, ('thorough',), 3600, 9, 21),
        _c01_gen("gen_q_kq_kp_white_complete", 1, 27, ('thorough',), 5400, 16, 35),
        _c01_gen("gen_q_kq_kp_black_sound", 1, 27, ('thorough',), 5400, 16, 35),
        _c01_gen("gen_q_kpp_knn_white_sound", 2, 8, ("quick", "thorough"), 3600, 7.5, 32, 2),
        _c01_gen("gen_q_kpp_knn_white_complete", 2, 8, ("quick", "thorough"), 3600, 7.5, 32, 2),
        _c01_gen("gen_q_kpp_knn_black_complete", 2, 8, ("quick", "thorough"), 3600, 7.5, 32, 2),
        _c01_gen("gen_q_kp_kpn_ep_white_sound", 1, 8, ("thorough",), 3600, 8, 16),
        _c01_gen("gen_q_kp_kpn_ep_white_complete", 1, 8, ("quick", "thorough"), 3600, 7.5, 16),
        _c01_gen("gen_q_kp_kpn_ep_black_complete", 1, 8, ("thorough",), 3600, 8, 16),
        _c01_gen("gen_q_kpp_kp_ep_white_complete", 2, 8, ("quick", "thorough"), 3600, 7.5, 24),
        _c01_gen("gen_q_kpp_kp_ep_black_complete", 2, 8, ("quick", "thorough"), 3600, 7.5, 24),
        _c01_gen("gen_castle_rn_white_sound", 2, 14, ('quick', 'thorough'), 3600, 7.5, 40),
        _c01_gen("gen_castle_rn_black_sound", 2, 14, ('quick', 'thorough'), 3600, 7.5, 40),
        _c01_gen("gen_castle_n_white_sound", 2, 14, ('thorough',), 3600, 7, 40),
        _c01_gen("gen_castle_n_white_complete", 2, 14, ("thorough",), 3600, 7, 40),
        _c01_gen("gen_castle_n_black_sound", 2, 14, ('thorough',), 3600, 7, 40),
        _c01_gen("gen_castle_n_black_complete", 2, 14, ("thorough",), 3600, 7, 40),
        Inst("c01::reach_witness", sub="vacuity", unwind=10, nomem=True, timeout=1800, mem_gb=4, expect="fail",
             unwindset=(("expand_moves", 10), ("compute_pawn_moves", 6), ("compute_knight_moves", 3), ("compute_bishop_moves", 3), ("compute_rook_moves", 3),
                        ("compute_queen_moves", 3), ("compute_king_moves", 4), ("from_occupancy#0", 3), ("from_occupancy#1", 8), ("piece_at#0", 8), ("piece_at#1", 4), ("family", 6))),
    ],
}

# ---- C02 -------------------------------------------------------------------------------------------
_c02_fn = ("State::by_performing_move", "State::new", "Board::new", "Board::piece_map/piece_occupancy/occupancy/colored_occupancy",
           "Move accessors", "Move constructors (via the harness's canonical builder)", "Square::offset", "BitBoard::set/test",
           "Color::backward/opposing_color", "ArrayMap index/clone")
PLAN["C02"] = {
    "feature": "c02",
    "exhaustive": False,
    "bounds": "no bound on the position: twelve free bitboards (disjoint, one king each, no pawn on ranks 1/8), symbolic side, "
              "rights (consistent with homes), en-passant target (behind a just-double-stepped pawn), clocks < 2^32, symbolic "
              "move coordinates restricted to pseudo-legal moves of a legal position; sequences by induction on the "
              "legal-position invariant (asserted on the successor of every legal move)",
    "outside": ["clocks >= 2^32", "State::by_performing_moves on the *real* legal move list (the resolver's three-way match is decided on arbitrary lists of 0, 1 and 2 moves instead)",
                "moves that are not pseudo-legal in the position"],
    "trusted": ["rustc / kani-compiler / CBMC", "reference rules in harness/common/rules.rs"],
    "assumptions": ["position is a legal position (invariant of DESIGN §4.2)", "move is pseudo-legal per the reference rules"],
    "insts": [
        Inst("c02::step_pieces", sub="C02.a/b", timeout=1200, mem_gb=6, functions=_c02_fn, bounds="any legal position, any N/B/R/Q move"),
        Inst("c02::step_king", sub="C02.a/b", timeout=1200, mem_gb=6, functions=_c02_fn, bounds="any legal position, any king move incl. castling"),
        Inst("c02::step_pawn", sub="C02.a/b", timeout=1200, mem_gb=6, functions=_c02_fn, bounds="any legal position, any pawn move incl. ep and promotion"),
        Inst("c02::ep_without_target_is_refused", sub="C02.a", timeout=600, functions=("State::by_performing_move",), bounds="any position without ep target"),
        Inst("c02::coordinate_query", sub="C02.c", timeout=600, functions=("MoveQuery::by_moving_from_to", "MoveQuery::set_promotion", "MoveQuery::test"),
             bounds="any position, any pseudo-legal move, any coordinate triple"),
        Inst("c02::resolver_on_empty_list", sub="C02.c", unwind=9, nomem=True, timeout=3600, mem_gb=16,
             functions=("State::by_performing_moves", "MoveSet::filter", "MoveQuery::test", "State::by_performing_move"),
             stubs=("MoveGenerator::compute_legal_moves -> an arbitrary list of 0 pseudo-legal move(s) of the position with their real successors (over-approximates every legal-move list of that size)",),
             bounds="any legal position, any coordinate triple, any list of 0 candidate move(s)"),
        Inst("c02::resolver_on_one_move", sub="C02.c", unwind=9, nomem=True, timeout=3600, mem_gb=16,
             functions=("State::by_performing_moves", "MoveSet::filter", "MoveQuery::test", "State::by_performing_move"),
             stubs=("MoveGenerator::compute_legal_moves -> an arbitrary list of 1 pseudo-legal move(s) of the position with their real successors (over-approximates every legal-move list of that size)",),
             bounds="any legal position, any coordinate triple, any list of 1 candidate move(s)"),
        Inst("c02::resolver_on_two_moves", sub="C02.c", unwind=9, nomem=True, timeout=3600, mem_gb=24,
             functions=("State::by_performing_moves", "MoveSet::filter", "MoveQuery::test", "State::by_performing_move"),
             stubs=("MoveGenerator::compute_legal_moves -> an arbitrary list of 2 pseudo-legal move(s) of the position with their real successors (over-approximates every legal-move list of that size)",),
             bounds="any legal position, any coordinate triple, any list of 2 candidate move(s)"),
        Inst("c02::reach_witness", sub="vacuity", timeout=600, expect="fail"),
    ],
}

# ---- C05 / C13 ---------------------------------------------------------------------------------------
_eval_fn = ("Evaluator::evaluate", "Evaluator::default", "StateVariation::from", "eval::evaluate_piece_worths::evaluate", "eval::evaluate_piece_squares::evaluate",
            "eval::evaluate_piece_squares::evaluate_piece_square", "eval::evaluate_force_king_to_edge::evaluate", "eval::evaluate_bad_pawns::evaluate",
            "Evaluation arithmetic (Add, Sub, Neg, Mul<i32>, Mul<f32>)", "Evaluation::mate_in_ply", "Board::colored_attacks", "AttackMap::from_occupancy",
            "State::is_check", "Square::manhattan_distance_to / flip_rank / white_at_bottom_index")
LEGAL_STUB = ("MoveGenerator::compute_legal_moves (inside the evaluator) -> move set that is empty iff the reference finds no legal move for the lone king "
              "(discharged by C01 on the same families up to the filter-loop reading argument)",)
NONTERM_STUB = ("MoveGenerator::compute_legal_moves (inside the evaluator) -> non-empty set; only used on positions where the mover is not in check and its king "
                "has an empty unattacked neighbour square, so a legal move exists",)


def _eval_inst(name, sub, men, tiers, timeout, mem, stubs, mod="c05"):
    us = (("from_occupancy#0", men + 2), ("from_occupancy#1", 8), ("evaluate_piece_squares::evaluate#0", men + 2), ("family", men + 2))
    return Inst("%s::%s" % (mod, name), crate="engine", sub=sub, tiers=tiers, unwind=10, unwindset=us, nomem=True, timeout=timeout, mem_gb=mem,
                functions=_eval_fn, stubs=GEO_STUBS + stubs,
                bounds="family %s: kings + %d men of concrete kinds, all squares, perspective and ply (<= 10^6) symbolic; floats bit-precise" % (name, men))


PLAN["C05"] = {
    "feature": "c05",
    "exhaustive": False,
    "bounds": "mate scores: ply <= 10^6; evaluator: 3- and 4-man families in which the side to move is a lone king (KRk, KQk, KPk, KNNk, KBNk, KBBk, KRRk, KQRk; both "
              "colours), all squares, both perspectives, ply <= 10^6; floats bit-precise",
    "outside": ["more than 4 men; positions where the side to move has more than its king (the no-legal-move oracle enumerates the eight king steps)",
                "ply >= 2^31 (the `as i32` cast wraps)"],
    "trusted": ["rustc / kani-compiler / CBMC (incl. its IEEE-754 float encoding)", "reference rules (harness/common/rules.rs)"],
    "assumptions": ["positions are legal positions"],
    "insts": [
        Inst("c05::mate_scores_are_terminal_and_monotone", crate="engine", sub="C05.a", timeout=600, functions=("Evaluation::mate_in_ply", "Evaluation::is_terminal", "Neg/Ord for Evaluation"), bounds="ply p, q <= 10^6"),
        _eval_inst("krk_black_to_move", "C05.b", 1, ("quick", "thorough"), 3600, 10, LEGAL_STUB),
        _eval_inst("krk_white_to_move", "C05.b", 1, ("quick", "thorough"), 3600, 10, LEGAL_STUB),
        _eval_inst("kqk_black_to_move", "C05.b", 1, ("quick", "thorough"), 3600, 10, LEGAL_STUB),
        _eval_inst("kqk_white_to_move", "C05.b", 1, ("thorough",), 3600, 10, LEGAL_STUB),
        _eval_inst("kpk_black_to_move", "C05.b", 1, ("quick", "thorough"), 3600, 10, LEGAL_STUB),
        _eval_inst("kqk_stalemate_is_zero", "C05.b", 1, ("quick", "thorough"), 3600, 10, LEGAL_STUB),
        _eval_inst("knnk_black_to_move", "C05.b", 2, ("quick", "thorough"), 7200, 10, LEGAL_STUB),
        _eval_inst("kbnk_black_to_move", "C05.b", 2, ("thorough",), 7200, 14, LEGAL_STUB),
        _eval_inst("krrk_white_to_move", "C05.b", 2, ("thorough",), 7200, 14, LEGAL_STUB),
        _eval_inst("kbbk_black_to_move", "C05.b", 2, ("thorough",), 7200, 14, LEGAL_STUB),
        _eval_inst("kqrk_black_to_move", "C05.b", 2, ("thorough",), 7200, 14, LEGAL_STUB),
        _eval_inst("reach_witness", "vacuity", 1, ("quick", "thorough"), 1800, 10, LEGAL_STUB),
    ],
}
PLAN["C05"]["insts"][-1].expect = "fail"

_c13 = []
for fam, men, mode, tiers in (("krk_btm", 1, 0, ("thorough",)), ("kqk_wtm", 1, 0, ("thorough",)), ("kpk_btm", 1, 0, ("thorough",)),
                              ("kbnk_btm", 2, 0, ("thorough",)), ("kpkp_wtm", 2, 1, ("thorough",)), ("kppk_wtm", 2, 1, ("thorough",)),
                              ("krkn_btm", 2, 1, ("thorough",)), ("kqkb_wtm", 2, 1, ("thorough",)), ("kbpkn_wtm", 3, 1, ("thorough",))):
    for which in ("negation", "mirror"):
        _c13.append(_eval_inst("%s_%s" % (fam, which), "C13 " + which, men, tiers, 7200, 14, LEGAL_STUB if mode == 0 else NONTERM_STUB, mod="c13"))
# quick tier: slices with part of the position concrete (a full-family query costs 15-20 min of SAT solving over
# IEEE floats, more than the quick budget; slicing a full family by the file of the man only bought a factor 1.7)
for _n, _men, _stub in (("q_kings_negation", 0, NONTERM_STUB), ("q_kings_mirror", 0, NONTERM_STUB), ("q_pawn_mirror", 1, NONTERM_STUB),
                        ("q_knight_mirror", 1, NONTERM_STUB), ("q_bishop_mirror", 1, NONTERM_STUB), ("q_rook_mirror", 1, NONTERM_STUB),
                        ("q_queen_mirror", 1, NONTERM_STUB)):
    _c13.append(_eval_inst(_n, "C13 slice", _men, ("quick", "thorough"), 3600, 11 if _men else 9, _stub, mod="c13"))
_c13.append(Inst("c13::lemma_weighting_is_odd", crate="engine", sub="C13 lemma", timeout=1200, functions=("<Evaluation as Mul<f32>>::mul", "<Evaluation as Neg>::neg"),
                 bounds="x in [-2^20, 2^20], weights 1.0 / 0.8 / 0.2"))
_w = _eval_inst("reach_witness", "vacuity", 1, ("quick", "thorough"), 1800, 10, LEGAL_STUB, mod="c13")
_w.expect = "fail"
_c13.append(_w)
PLAN["C13"] = {
    "feature": "c13",
    "exhaustive": False,
    "bounds": "3-, 4- and 5-man families (KRk, KQk, KPk, KBNk with a lone king to move incl. terminal positions; KPkp, KPPk, KRkn, KQkb, KBPkn restricted to positions "
              "where the mover is not in check and its king has a free safe square), all squares, both perspectives, ply <= 10^6; floats bit-precise",
    "outside": ["more than 5 men", "castling rights and en-passant targets (the evaluator does not read them)"],
    "trusted": ["rustc / kani-compiler / CBMC (incl. its IEEE-754 float encoding)", "mirror() and the reference rules in harness/common/rules.rs"],
    "assumptions": ["positions are legal positions"],
    "insts": _c13,
}

# ---- C08 -------------------------------------------------------------------------------------------
_c08_fn = ("ZobristHasher::with", "ZobristHasher::hash", "ArrayMap::from_fn", "Board::piece_occupancy", "BitBoard::iter_ones", "State::turn_to_move")
_c08_us = (("family", 7), ("ZobristHasher4hash#0", 4), ("ZobristHasher4hash#1", 9), ("ZobristHasher4hash#2", 4))


def _c08_inst(name, sub, tiers=("quick", "thorough"), timeout=3600, mem=12, bounds="", extra=()):
    return Inst("c08::" + name, sub=sub, tiers=tiers, unwind=66, unwindset=_c08_us, nomem=True, timeout=timeout, mem_gb=mem, functions=_c08_fn, stubs=GEO_STUBS, bounds=bounds, extra=extra)


PLAN["C08"] = {
    "feature": "c08",
    "exhaustive": False,
    "bounds": "equality half: seeded key table (VERIF_SEED), the family K+R vs k+p with symbolic squares/rights/ep and arbitrary counters; a position reached by two real moves vs set up directly; separation half: key tables from splitmix64(VERIF_SEED) (two independent tables), families of kings + 3..4 men (concrete kinds, symbolic squares), pairs differing in side / one castling right / en-passant availability / one move's worth of placement",
    "outside": ["pairs differing in more than four placement incidences (any 65 keys are linearly dependent over GF(2): far-apart colliding pairs exist under every seed)",
                "the ChaCha8 generator itself (keys are taken from a generic Rng)",
                "equality for *every* key table: decided under the seeded table of the run; that the hash reads nothing but placement, side, rights and ep target "
                "(hence is independent of counters and history under any table) is read from the code, a fully symbolic table exhausts memory"],
    "trusted": ["rustc / kani-compiler / CBMC"],
    "assumptions": ["a failure of the separation half must reproduce under two independent key tables to count (2^-64 coincidences are not defects)"],
    "insts": [
        _c08_inst("equal_positions_hash_equal", "C08.a", bounds="seeded key table; K+R vs k+p, symbolic squares, rights, ep target and counters"),
        _c08_inst("reached_and_constructed_hash_equal", "C08.a", bounds="seeded keys; K+N vs k: knight move and king step by the real successor function vs the same position set up directly, all squares, arbitrary counters"),
        _c08_inst("separates_side_to_move", "C08.b", bounds="seeded keys; K+Q vs k+n+p; pair differs in side to move"),
        _c08_inst("separates_castling_rights", "C08.b", bounds="seeded keys; K+R+R vs k+r+r; pair differs in exactly one castling right"),
        _c08_inst("separates_en_passant_availability", "C08.b", bounds="seeded keys; K+P+N vs k+p; pair differs in an available en-passant capture"),
        _c08_inst("separates_placement_white", "C08.b", bounds="seeded keys; K+P+N vs k+r; pair differs by one pseudo-legal move's placement change"),
        _c08_inst("separates_placement_black", "C08.b", bounds="seeded keys; k+p+b vs K+Q; pair differs by one pseudo-legal move's placement change"),
        Inst("c08::reach_witness", sub="vacuity", unwind=66, unwindset=_c08_us, nomem=True, timeout=1800, mem_gb=12, expect="fail"),
    ],
}

# ---- C09 -------------------------------------------------------------------------------------------
def gen_tables(workdir):
    rc, out = run_tool("tabledump", [os.path.join(ROOT, "harness/core/src/gen_tables.rs")], workdir)
    if rc != 0:
        return False, "tabledump failed (hook attacks::verif_hooks missing or /repo does not build):\n" + out[-2000:]
    return True, ""


_c09_stub_note = ("private initialisers compute_{rook,bishop}_magic_table, compute_{rook,bishop}_slide_masks, "
                  "compute_{knight,king,pawn}_attacks replaced by tables dumped from a native run of those same "
                  "initialisers on this tree (tools/tabledump, regenerated on this run)")
_c09_fn = ("AttackGenerator::compute_rook_attacks", "AttackGenerator::compute_bishop_attacks",
           "AttackGenerator::compute_queen_attacks", "lazy_static deref of ROOK/BISHOP_MAGIC_TABLE, *_SLIDE_MASKS, *_MAGICS",
           "ArrayMap::index", "Vec::index (bounds check)")
PLAN["C09"] = {
    "feature": "c09",
    "pregen": [gen_tables],
    "exhaustive": True,
    "bounds": "none on the inputs: all 2^64 occupancies for each of the 64 squares (sliders), all squares and both colours "
              "(leapers); tables precomputed by the real initialisers run natively",
    "outside": ["the table *initialisers* are executed natively, not symbolically (closed, input-free computations)"],
    "trusted": ["a native run of the input-free initialisers yields what the same code means (deterministic, no unsafe)",
                "rustc / kani-compiler / CBMC"],
    "assumptions": [_c09_stub_note],
    "insts": [Inst("gen_tables::sq%d::sliders" % i, sub="C09 sliders", timeout=900, mem_gb=3,
                   functions=_c09_fn, stubs=("table initialisers -> natively dumped tables",),
                   bounds="square %d, all 2^64 occupancies" % i) for i in range(64)] + [
        Inst("c09::leapers", sub="C09 leapers", timeout=600, stubs=("table initialisers -> natively dumped tables",),
             functions=("AttackGenerator::compute_knight_attacks", "AttackGenerator::compute_king_attacks",
                        "AttackGenerator::compute_pawn_attacks"), bounds="all 64 squares, both colours"),
        Inst("c09::dispatch_d4", sub="C09 dispatcher", timeout=900, stubs=("table initialisers -> natively dumped tables",),
             functions=("AttackGenerator::compute",), bounds="square d4, all kinds, colours and occupancies"),
        Inst("c09::lemma_bitboard_shift", sub="C09 lemma", timeout=600, unwind=9, functions=("BitBoard::shift",),
             bounds="any board, |file|,|rank| <= 7"),
        Inst("c09::lemma_square_offset", sub="C09 lemma", timeout=600, functions=("Square::offset",),
             bounds="any square, |file|,|rank| <= 7"),
        Inst("c09::reach_witness", sub="vacuity", timeout=600, expect="fail"),
    ],
}


# ---- assume-guarantee chain (DESIGN §3.2) ---------------------------------------------------------------
def _sha(paths):
    import hashlib
    h = hashlib.sha256()
    for p in sorted(paths):
        h.update(os.path.basename(p).encode())
        try:
            h.update(open(p, "rb").read())
        except OSError:
            h.update(b"<missing>")
    return h.hexdigest()[:20]


def prereq_c09(workdir, tier="quick"):
    """Checks that replace the table lookups by geometry rely on C09 for *this* tree. A verdict is cached
    for gating only, keyed by every file C09's encoding is generated from; C09's own check never reads it.
    Quick tier: a cached failing verdict makes the dependant inconclusive; when no verdict exists for this
    tree the dependant proceeds and records the assumption (running C09 inline costs 5-8 min, more than the
    quick tier's budget; `./check C09` decides it). Thorough tier: C09's quick tier is run inline first."""
    import json
    import fcntl
    import vdriver
    core = REPO + "/weechess-core/src/"
    files = [core + f for f in ("attacks.rs", "board.rs", "common.rs", "utils.rs", "piece.rs", "color.rs", "lib.rs")]
    files += [REPO + "/weechess-core/Cargo.toml", vdriver.repo_lock()]
    files += [os.path.join(ROOT, f) for f in ("harness/core/src/c09.rs", "harness/core/src/lib.rs", "harness/common/geo.rs",
                                              "harness/common/shim.rs", "tools/tabledump/src/main.rs")]
    key = _sha(files)
    cdir = os.environ.get("VERIF_PREREQ_CACHE") or os.path.join(ROOT, "work", "prereq")
    os.makedirs(cdir, exist_ok=True)
    cf = os.path.join(cdir, "C09-%s.json" % key)
    with open(os.path.join(cdir, "gate.lock"), "w") as lk:
        fcntl.flock(lk, fcntl.LOCK_EX)  # concurrent checks share one gate run
        if os.path.exists(cf):
            rc = json.load(open(cf))["exit"]
        elif tier != "thorough" and not os.environ.get("VERIF_GATE_INLINE"):
            vdriver.log("[prereq] no C09 verdict cached for this tree (key %s): proceeding under the assumption "
                        "'lookups = geometry'; run ./check C09 to decide it" % key)
            return True, "assumed: C09 (lookup tables = geometry) not decided for this tree in this run"
        else:
            vdriver.log("[prereq] C09 has no verdict for this tree yet (key %s): running its quick tier first" % key)
            rc = vdriver.check("C09", PLAN["C09"], "quick", None, 0, evidence=False)
            if rc in (0, 1):  # an inconclusive gate run is retried next time, never cached
                json.dump({"exit": rc, "key": key}, open(cf, "w"))
    if rc == 0:
        return True, "C09 verdict for this tree: holds (cached)"
    return False, ("C09 (lookup tables = geometry) does not hold or could not be decided on this tree (exit %d): checks that "
                   "stand in geometry for the lookups cannot be trusted; see ./check C09" % rc)


for _p in ("C01", "C05", "C08", "C10", "C13"):
    PLAN[_p]["prereq"] = [prereq_c09]


def setup():
    """Run once after a fresh restore: warm the builds, self-test the oracle geometry, seed the C09 gate."""
    import shutil
    import vdriver
    from vdriver import _run, ENV, TARGET, log
    rc_all = 0
    for crate in ("core", "engine"):
        cdir = os.path.join(ROOT, "harness", crate)
        shutil.copyfile(vdriver.repo_lock(), os.path.join(cdir, "Cargo.lock"))
    # 1. the reference geometry against naive ray walking (native unit test of harness/common/geo.rs)
    env = dict(ENV)
    env["RUSTUP_TOOLCHAIN"] = "nightly"
    env["RUSTFLAGS"] = "--cfg weechess_verif -Awarnings"
    vdriver.ensure_fresh(os.path.join(TARGET, "selftest"))
    rc, out = _run(["cargo", "test", "--lib", "--target-dir", os.path.join(TARGET, "selftest"), "geo::selftest"],
                   cwd=os.path.join(ROOT, "harness", "core"), env=env, timeout=1800)
    ok = rc == 0 and "1 passed" in out
    log("[setup] oracle geometry self-test: %s" % ("ok" if ok else "FAILED\n" + out[-2000:]))
    if not ok:
        rc_all = 1
    # 1b. the reference rules against the repository's real move generator on perft walks (oracle self-test)
    env["RUSTFLAGS"] = "--cfg weechess_verif --cfg replay -Awarnings"
    rc, out = _run(["cargo", "test", "--release", "--lib", "--target-dir", os.path.join(TARGET, "selftest"), "selftest::oracle"],
                   cwd=os.path.join(ROOT, "harness", "core"), env=env, timeout=1800)
    ok = rc == 0 and "1 passed" in out
    log("[setup] reference rules vs real move generator (perft walks): %s" % ("ok" if ok else "FAILED\n" + out[-2000:]))
    if not ok:
        rc_all = 1
    # 2. warm the Kani builds (dependencies) and the native replay builds
    for pid in ("C20", "C15"):
        rc = vdriver.check(pid, PLAN[pid], "quick", "reach_witness", 0, evidence=False)
        log("[setup] warm build via %s reach witness: exit %d" % (pid, rc))
        if rc != 0:
            rc_all = 1
    # 2b. warm the native replay builds (dev + release) so that a first violation is confirmed quickly
    env["RUSTFLAGS"] = "--cfg replay --cfg weechess_verif -Awarnings"
    for crate, feat in (("core", "c20"), ("engine", "c15")):
        tdir = os.path.join(TARGET, "replay-" + crate)
        vdriver.ensure_fresh(tdir)
        for prof in ([], ["--release"]):
            rc, out = _run(["cargo", "test", "--lib", "--no-run", "--features", feat, "--target-dir", tdir] + prof,
                           cwd=os.path.join(ROOT, "harness", crate), env=env, timeout=1800)
            if rc != 0:
                log("[setup] replay build %s %s FAILED\n%s" % (crate, prof, out[-1500:]))
                rc_all = 1
    log("[setup] native replay builds warmed")
    # 3. seed the prerequisite gate
    ok, why = prereq_c09(os.path.join(ROOT, "work"), "thorough")
    log("[setup] C09 gate: %s" % ("ok" if ok else why))
    if not ok:
        rc_all = 1
    return rc_all
