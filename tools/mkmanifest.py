#!/usr/bin/env python3
"""Regenerates /verif/MANIFEST.json from lib/plan.py (claimed checks) and the fixed not-applicable list."""
import json, os, sys
ROOT = os.path.dirname(os.path.dirname(os.path.abspath(__file__)))
sys.path.insert(0, os.path.join(ROOT, "lib"))
import plan

CLAIMED = sys.argv[1:] or sorted(plan.PLAN)

NA = {
 "C03": "needs the threaded recursive search (rayon pool, RwLock-shared table, recursion over move generation) and a walk of the table afterwards: Kani/CBMC has no thread model, and one ply of move generation already needs heavy stubbing to fit (DESIGN §5); the sequential obligations it reduces to are decided under C15 and C08",
 "C04": "termination, Stop latency and receiver drop involve two threads, an mpsc channel, an atomic flag and elapsed wall-clock time; not encodable as a bounded sequential program (DESIGN §5)",
 "C06": "needs the game-theoretic value as oracle and the whole threaded search as subject; neither can be encoded within reach of CBMC (DESIGN §5)",
 "C07": "process-level contract over stdin/stdout, a writer thread, a timer thread and wall-clock time (DESIGN §5)",
 "C11": "the FEN reader compiles its regex at run time (Regex::new) and reads regex::Captures; constructing the automaton is not executable symbolically and Captures cannot be fabricated by a stub, so the public round trip cannot be encoded; the field parsers behind the gate are covered under C14 (DESIGN §5)",
 "C16": "the subject is a fixed corpus of PGN files pushed through build.rs; there is nothing to make symbolic; its 'same key, other position' half is C08 (DESIGN §5)",
 "C17": "an outcome of the full threaded search given a history (DESIGN §5)",
 "C18": "concerns locals of Client::exec across stdin commands and joined threads (DESIGN §5)",
 "C19": "determinism is a 2-safety property of the whole threaded search (rayon, HashMap with RandomState, ChaCha8) (DESIGN §5)",
}

TEXT = {
 "C01": ("Bounded model checking of the compiled real code. (a) the legality filter try_as_legal_move is decided on every legal position with <= 2 (thorough: 3) opposing men per kind and every candidate move, against an independent rule reference; (b) the candidate list is decided to contain only moves that obey the movement rules with the right attributes, none twice, and every legal move, on families of kings + <= 3 men (quick: castling families with king and rooks at home, pawn families with concrete kings; thorough: all squares symbolic) with symbolic castling rights and en-passant target; a glue lemma (no bound) shows every legal move is a candidate. The six-line filter loop and perft are argued from reading, not decided.",
         "DESIGN.md §4.1", "Assumes C09 (lookups = geometry; a cached failing C09 verdict for the tree makes this check inconclusive, the thorough tier runs C09 first). Reference rules in harness/common/rules.rs are validated natively against the real generator on perft walks at setup. Vec::push replaced by a non-reallocating equivalent that asserts capacity. Memory-safety (pointer) checks off for the generator harnesses while /repo has no `unsafe`.",
         "SAT-based bounded model checking (Kani/CBMC) of try_as_legal_move and compute_psuedo_legal_moves_into over symbolic positions, differential against an independent rule reference"),
 "C02": ("Bounded model checking with no bound on the position: twelve free bitboards, symbolic side, rights, en-passant target, clocks (< 2^32) and move; every field of State::by_performing_move's result is compared with an independent make-move reference, and the legal-position invariant is shown preserved by every legal move (induction step for sequences). MoveQuery::test is decided for every coordinate triple, and the resolver of State::by_performing_moves (exactly one match applies that move, none / several are rejected, input unchanged) on every adversarial candidate list of 0, 1 or 2 moves.",
         "DESIGN.md §4.2", "State::by_performing_moves is decided on arbitrary candidate lists of <= 2 moves substituted for the legal move generator, not on the real generator's list. Reference make-move in harness/common/rules.rs validated natively at setup.",
         "SAT-based bounded model checking (Kani/CBMC) of State::by_performing_move on fully symbolic positions; one inductive step over the position invariant"),
 "C05": ("Bounded model checking of the real evaluator with bit-precise floats on 3- and 4-man families in which the side to move is a lone king: all squares, both perspectives, ply <= 10^6; mate / stalemate / non-terminal decided against an eight-step legality reference; mate-score monotonicity for all ply <= 10^6.",
         "DESIGN.md §4.3", "Assumes C09 (gated). compute_legal_moves inside the evaluator is replaced by a move set that is empty iff the reference finds no legal king step (discharged by C01 up to its filter-loop reading argument); native replay uses the real generator. Pointer checks off while /repo has no `unsafe`.",
         "SAT-based bounded model checking (Kani/CBMC) of Evaluator::evaluate over symbolic endgame families with IEEE-754 floats"),
 "C08": ("Bounded model checking of the real hasher under a seeded concrete key table: equal placement/side/rights/ep hash equal whatever the counters (family K+R vs k+p, all squares, symbolic rights, ep target and counters) and however reached (two real moves vs set up directly); pairs of positions that differ in side, one castling right, en-passant availability, or one move's worth of placement hash differently (families of kings + 3..4 men, all squares).",
         "DESIGN.md §4.4", "Assumes C09 (gated; the repaired hash consults the pawn-attack table). Equality for *every* key table is read from the code, not decided (a symbolic table exhausts memory). Both halves are decided under splitmix64 keys derived from VERIF_SEED (a failure must reproduce under a second independent table in native replay). Pairs differing in more than four placement incidences are excluded on purpose (GF(2) dependence).",
         "SAT-based bounded model checking (Kani/CBMC) of ZobristHasher::with/hash on symbolic position pairs"),
 "C09": ("Exhaustive within the claim: for each of the 64 squares the real rook/bishop/queen lookups (mask, magic multiply, shift, bounds-checked index, lazy_static) are shown equal to loop-free ray geometry for all 2^64 occupancies; leapers for all squares and colours. Tables are produced by running the repository's own initialisers natively on every run and substituted for the initialisers.",
         "DESIGN.md §4.5", "Trusted: a native run of the input-free table initialisers yields what that code means; the reference geometry is self-tested against naive ray walking at setup.",
         "SAT-based bounded model checking (Kani/CBMC) of the real lookup code over all occupancies, on natively dumped tables"),
 "C10": ("Bounded model checking on arbitrary placements (not only legal ones) with <= 2 (thorough: 3) men per kind and colour and a symbolic target square: attack set, pawn attack set, Board::is_check and State::is_check against a square-centric reference; a symbolic program of queries and clones answers like fresh boards; piece_at lemma without bound.",
         "DESIGN.md §4.6", "Assumes C09 (gated). More than u men of one kind and colour (e.g. eight pawns) are outside the bound.",
         "SAT-based bounded model checking (Kani/CBMC) of Board::colored_attacks/is_check over symbolic placements"),
 "C12": ("Bounded model checking of the real SAN parser on every spelling of the SAN grammar (<= 9 bytes), of MoveQuery::test against the component-wise specification on any move of any position, and of the coordinate-text writer (fixed 8-byte sink) with read-back.",
         "DESIGN.md §4.7", "Position-level uniqueness among the legal moves of a position needs the legal move list and is outside (argued from the matcher semantics). The `bestmove` line printed by uci.rs is outside.",
         "SAT-based bounded model checking (Kani/CBMC) of San::try_from_notation, MoveQuery::test and the Lan writer over symbolic text and moves"),
 "C13": ("Bounded model checking of the real evaluator (bit-precise floats) for negation symmetry and mirror symmetry; quick: slices (bare kings with one king symbolic; kings concrete and one man of each kind on a symbolic square), thorough: 3- to 5-man families with all squares symbolic; both perspectives, all ply <= 10^6; lemma that weighting commutes with negation.",
         "DESIGN.md §4.8", "Assumes C09 (gated). Families where the mover has more than a king are restricted to positions where it is not in check and its king has a free safe square (a legal move then exists). compute_legal_moves inside the evaluator stubbed as for C05.",
         "SAT-based bounded model checking (Kani/CBMC) of Evaluator::evaluate twice per query (relational check) with IEEE-754 floats"),
 "C14": ("Bounded model checking for absence of panics (overflow, bounds, unwrap, slicing, char boundaries: the dev profile's checks) and termination (unwinding assertions): SAN parser on every valid UTF-8 string <= 6 bytes (thorough 8), Square::try_from <= 4 bytes, the FEN field parsers behind the regex gate on every input the gate admits up to 24 bytes and on concrete runs of 31 (7) eights followed by every 15-16 (18) byte tail (thorough: full alphabet to 48 bytes, 54-byte digit floods).",
         "DESIGN.md §4.9", "Parsers only: the UCI command loop and the regex gate itself are outside. FEN field inputs restricted to what the regex admits.",
         "SAT-based bounded model checking (Kani/CBMC) of the text parsers over all byte strings up to a length bound"),
 "C15": ("Bounded model checking of the real private table types through a forwarding hook: every history of <= 6 (thorough 9 and 10: forces the replacement path) inserts plus a lookup on one bucket, short histories on routed tables, and one insert/lookup step from an arbitrary bucket under the representation invariant (any history length on one bucket by induction).",
         "DESIGN.md §4.10", "Sequential semantics only: thread interleavings are outside (every table operation holds one RwLock for its whole duration — linearisation argued from reading). Routed histories are short because symbolic routing through heap-allocated tables exhausts memory.",
         "SAT-based bounded model checking (Kani/CBMC) of the transposition table over symbolic operation histories with ghost state"),
 "C20": ("Bounded model checking with no bound on the inputs: every constructor argument (colour, kind, origin, destination, capture, promotion, class, side) is symbolic; accessor, equality and serde-layer assertions hold for all of them.",
         "DESIGN.md §4.11", "The CBOR byte codec (ciborium) is trusted to round-trip a u32 (it does not finish under CBMC). En-passant constructor applied to pawns only.",
         "SAT-based bounded model checking (Kani/CBMC) of the real constructors, accessors and derived serde impls over fully symbolic arguments"),
}

checks = []
for pid in CLAIMED:
    text, ref, note, tech = TEXT[pid]
    checks.append({
        "property_id": pid,
        "quick_cmd": "./check %s --tier quick" % pid,
        "thorough_cmd": "./check %s --tier thorough" % pid,
        "evidence_file": "/verif/evidence/%s.json" % pid,
        "replay_cmd_template": "./check replay {path}",
        "engine": "kani-cbmc",
        "level_claimed": {"category": "model_checking", "text": text, "design_ref": ref},
        "level_note": note + " Trusted base: rustc, kani-compiler 0.68, CBMC 6.11 (CaDiCaL). A counterexample is only reported after it reproduces natively (no stubs, real tables, dev and release).",
        "technique": tech,
    })

na = [{"property_id": k, "reason": v} for k, v in sorted(NA.items())]
for pid in sorted(TEXT):
    if pid not in CLAIMED:
        na.append({"property_id": pid, "reason": "check planned (DESIGN.md §4) but not calibrated yet; not claimed until it runs clean"})

hooks = []
try:
    import subprocess
    out = subprocess.check_output(["git", "-C", "/repo", "log", "--format=%h %s"], text=True)
    hooks = [l.split()[0] for l in out.splitlines() if l.split(" ", 1)[1].startswith("verif hook:")]
except Exception:
    pass

m = {
    "version": 1,
    "setup_cmd": "./check setup",
    "hooks": {
        "guard": "cfg(any(kani, weechess_verif))",
        "enable": "kani-compiler sets cfg(kani) for every crate it builds; native helpers (table dump, replay, self-tests) pass RUSTFLAGS=--cfg weechess_verif",
        "baseline_off_cmd": "cd /repo && cargo test --workspace --no-fail-fast --offline",
        "source_commits": hooks,
        "add_only": True,
    },
    "engines": [{"name": "kani-cbmc", "path": "/verif/check", "serves_properties": CLAIMED,
                 "kind_free_text": "Kani 0.68 compiles the real crates plus harnesses to goto programs (regenerated from /repo's working tree on every run); CBMC 6.11 with CaDiCaL decides each harness over symbolic inputs; the values of a counterexample are taken from CBMC's trace and replayed natively (dev + release, no stubs) before a VIOLATION is printed"}],
    "checks": checks,
    "notes": "Exit codes: 0 held on everything explored; 1 replay-confirmed violation (VIOLATION line); 2 inconclusive (timeout, memory, unwinding assertion, unsatisfied cover witness, build failure, unreproduced counterexample) - never reported as success or as violation. known_findings.json lists genuine defects found (all three fixed in /repo by 'fix:' commits).",
    "not_applicable": na,
}
json.dump(m, open(os.path.join(ROOT, "MANIFEST.json"), "w"), indent=1)
print("claimed:", CLAIMED)
