//! C05 — no-move positions score as mate or draw; others never as mate (DESIGN §4.3).
//! C13 shares the family builders below.

use crate::geo::*;
use crate::rules::*;
use crate::sym::*;
use weechess_core::*;
use weechess_engine::eval::{Evaluation, Evaluator};

#[cfg(replay)]
use crate::kani;

/// A family without castling rights or en-passant target (the evaluator reads neither).
pub fn family(wtm: bool, men: &[(usize, u8)], tag: &str) -> Pos {
    crate::sym::family(wtm, men, false, false, tag)
}

/// Does the side to move — a lone king — have a legal move? Eight steps, loop-free.
pub fn lone_king_has_legal(p: &Pos) -> bool {
    let us = p.us();
    let k = p.king_sq(us);
    let f = (k % 8) as i8;
    let r = (k / 8) as i8;
    let mut any = false;
    macro_rules! stepk {
        ($df:expr, $dr:expr) => {
            let (f2, r2) = (f + $df, r + $dr);
            if f2 >= 0 && f2 <= 7 && r2 >= 0 && r2 <= 7 {
                let t = (r2 * 8 + f2) as u8;
                any = any || legal_ref(p, Mv { from: k, to: t, promo: 0 });
            }
        };
    }
    stepk!(1, 1);
    stepk!(1, 0);
    stepk!(1, -1);
    stepk!(0, -1);
    stepk!(-1, -1);
    stepk!(-1, 0);
    stepk!(-1, 1);
    stepk!(0, 1);
    any
}

/// Stand-in for `MoveGenerator::compute_legal_moves` *inside the evaluator*: a move set that is empty
/// iff the reference finds no legal move (side to move is a lone king in these families).
/// Discharged by C01 on the same families (DESIGN §3.2); not active in native replay.
pub fn legal_moves_stub(state: &State) -> MoveSet {
    let p = from_state(state);
    if lone_king_has_legal(&p) {
        MoveSet::new(vec![MoveResult(Move::NULL, state.clone())])
    } else {
        MoveSet::empty()
    }
}

macro_rules! proof_eval {
    ($(#[$m:meta])* fn $name:ident() $body:block) => {
        proof_geo! {
            #[cfg_attr(kani, kani::stub(weechess_core::MoveGenerator::compute_legal_moves, crate::c05::legal_moves_stub))]
            $(#[$m])*
            fn $name() $body
        }
    };
}
pub(crate) use proof_eval;

// ---- C05.a: mate scores -------------------------------------------------------------------------

proof! {
    fn mate_scores_are_terminal_and_monotone() {
        let p: usize = kani::any();
        let q: usize = kani::any();
        kani::assume(p <= 1_000_000 && q <= 1_000_000);
        println!("CASE {{\"harness\":\"c05 mate_scores\",\"p\":{},\"q\":{}}}", p, q);
        let mp = Evaluation::mate_in_ply(p);
        let mq = Evaluation::mate_in_ply(q);
        assert!(mp >= Evaluation::POS_INF && mp.is_terminal(), "mate score is at least the terminal threshold");
        assert!((-mp) <= Evaluation::NEG_INF && (-mp).is_terminal(), "negated mate score is terminal on the losing side");
        if p <= q {
            assert!(mp >= mq, "mate scores never increase with ply: faster mates are preferred");
        }
        assert!(!Evaluation::EVEN.is_terminal(), "a draw score is not terminal");
        kani::cover!(p < q && mp > mq, "strictly faster mate scores higher");
        kani::cover!(p < q && mp == mq, "beyond ten plies mate scores are flat");
    }
}

// ---- C05.b: terminal positions of lone-king families -----------------------------------------------

fn terminal_check(wtm: bool, men: &[(usize, u8)], tag: &str) -> (bool, bool) {
    let p = family(wtm, men, tag);
    let persp_white: bool = kani::any();
    let ply: usize = kani::any();
    kani::assume(ply <= 1_000_000);
    println!("CASE {{\"harness\":\"{}\",\"perspective_white\":{},\"ply\":{}}}", tag, persp_white, ply);
    let s = to_state(&p);
    let persp = if persp_white { Color::White } else { Color::Black };
    let e = Evaluator::default().evaluate(&s, persp, ply);
    let has_move = lone_king_has_legal(&p);
    let in_check = attacked_ref(&p.bb, p.them(), p.king_sq(p.us()));
    let mover_is_persp = p.wtm == persp_white;
    if !has_move && in_check {
        let want = if mover_is_persp { -Evaluation::mate_in_ply(ply) } else { Evaluation::mate_in_ply(ply) };
        assert!(e == want, "checkmate must score as mate for the given ply (negative for the side to move)");
    } else if !has_move {
        assert!(e == Evaluation::EVEN, "stalemate must score exactly zero");
    } else {
        assert!(!e.is_terminal(), "a position with a legal move never scores as mate");
    }
    (has_move, in_check)
}

proof_eval! {
    fn krk_black_to_move() {
        let (hm, ck) = terminal_check(false, &[(0, 4)], "c05 krk_black_to_move");
        kani::cover!(!hm && ck, "checkmate position in the family");
        kani::cover!(hm && ck, "check with an escape");
    }
}

proof_eval! {
    fn krk_white_to_move() {
        let (hm, ck) = terminal_check(true, &[(1, 4)], "c05 krk_white_to_move");
        kani::cover!(!hm && ck, "checkmate position in the family");
        kani::cover!(hm && ck, "check with an escape");
    }
}

proof_eval! {
    fn kqk_black_to_move() {
        let (hm, ck) = terminal_check(false, &[(0, 5)], "c05 kqk_black_to_move");
        kani::cover!(!hm && ck, "checkmate position in the family");
        kani::cover!(hm && ck, "check with an escape");
    }
}

proof_eval! {
    fn kqk_white_to_move() {
        let (hm, ck) = terminal_check(true, &[(1, 5)], "c05 kqk_white_to_move");
        kani::cover!(!hm && ck, "checkmate position in the family");
        kani::cover!(hm && ck, "check with an escape");
    }
}

proof_eval! {
    fn kpk_black_to_move() {
        let (hm, ck) = terminal_check(false, &[(0, 1)], "c05 kpk_black_to_move");
        kani::cover!(!hm && !ck, "stalemate position in the family");
        kani::cover!(hm && ck, "check with an escape");
    }
}

proof_eval! {
    fn kbnk_black_to_move() {
        let (hm, ck) = terminal_check(false, &[(0, 3), (0, 2)], "c05 kbnk_black_to_move");
        kani::cover!(!hm && ck, "checkmate position in the family");
        kani::cover!(hm && ck, "check with an escape");
    }
}

proof_eval! {
    fn krrk_white_to_move() {
        let (hm, ck) = terminal_check(true, &[(1, 4), (1, 4)], "c05 krrk_white_to_move");
        kani::cover!(!hm && ck, "checkmate position in the family");
        kani::cover!(hm && ck, "check with an escape");
    }
}

proof_eval! {
    fn knnk_black_to_move() {
        let (hm, ck) = terminal_check(false, &[(0, 2), (0, 2)], "c05 knnk_black_to_move");
        kani::cover!(!hm && ck, "checkmate position in the family");
        kani::cover!(hm && ck, "check with an escape");
    }
}

proof_eval! {
    fn kbbk_black_to_move() {
        let (hm, ck) = terminal_check(false, &[(0, 3), (0, 3)], "c05 kbbk_black_to_move");
        kani::cover!(!hm && ck, "checkmate position in the family");
        kani::cover!(hm && ck, "check with an escape");
    }
}

proof_eval! {
    fn kqrk_black_to_move() {
        let (hm, ck) = terminal_check(false, &[(0, 5), (0, 4)], "c05 kqrk_black_to_move");
        kani::cover!(!hm && ck, "checkmate position in the family");
        kani::cover!(hm && ck, "check with an escape");
    }
}

// Stalemate witness families (KQk and KPk have stalemates; assert they are reached).
proof_eval! {
    fn kqk_stalemate_is_zero() {
        let p = family(false, &[(0, 5)], "c05 kqk_stalemate");
        let in_check = attacked_ref(&p.bb, 0, p.king_sq(1));
        kani::assume(!in_check && !lone_king_has_legal(&p));
        let persp_white: bool = kani::any();
        let ply: usize = kani::any();
        kani::assume(ply <= 1_000_000);
        println!("CASE {{\"harness\":\"c05 kqk_stalemate\",\"perspective_white\":{},\"ply\":{}}}", persp_white, ply);
        let e = Evaluator::default().evaluate(&to_state(&p), if persp_white { Color::White } else { Color::Black }, ply);
        assert!(e == Evaluation::EVEN, "stalemate must score exactly zero");
        kani::cover!(true, "a stalemate exists in KQk");
    }
}

proof_eval! {
    fn reach_witness() {
        let p = family(false, &[(0, 4)], "c05 reach");
        let e = Evaluator::default().evaluate(&to_state(&p), Color::White, 3);
        assert!(e == Evaluation::EVEN, "reach witness");
    }
}
