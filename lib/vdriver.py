"""Driver for solver-based checks of /repo (weechess-rs): Kani compiles, CBMC decides.

Pipeline per check (DESIGN.md §3.1):
  1. cargo kani --only-codegen on the harness crate (path deps on /repo => regenerated from the
     current working tree on every run)
  2. per harness: goto-cc link + goto-instrument passes (the ones kani-driver runs), cbmc --show-loops
     to derive a per-loop --unwindset, then cbmc with kani-driver's flag set, --json-ui --trace
  3. classify the JSON result (assertions, Kani-inserted checks, cover witnesses, unwinding assertions)
  4. a failed check is replayed natively (no stubs, real tables) from the values in the solver's trace,
     dev and release profile; only a reproduced failure is a VIOLATION
  5. evidence/<ID>.json is rewritten on every run
"""
import concurrent.futures as cf
import fcntl
import glob
import hashlib
import json
import os
import re
import resource
import shutil
import signal
import subprocess
import sys
import threading
import time

ROOT = os.path.dirname(os.path.dirname(os.path.abspath(__file__)))
REPO = os.environ.get("VERIF_REPO") or os.environ.get("VP_RUN_REPO") or "/repo"


def link_repo():
    """The harness crates depend on `<ROOT>/.repo/weechess-*`; point that at the tree under check."""
    link = os.path.join(ROOT, ".repo")
    tmp = link + ".tmp%d" % os.getpid()
    try:
        if os.path.islink(link) and os.readlink(link) == REPO:
            return
        os.symlink(REPO, tmp)
        os.replace(tmp, link)
    except OSError:
        pass
TARGET = os.path.join(ROOT, "target")
WORK = os.path.join(ROOT, "work")
EVID = os.path.join(ROOT, "evidence")
REPLAYS = os.path.join(ROOT, "replays")
KANI_HOME = os.path.expanduser("~/.kani/kani-0.68.0")
KANI_LIB_C = os.path.join(KANI_HOME, "library/kani/kani_lib.c")
TRIPLE = "x86_64-unknown-linux-gnu"
MAX_REPLAYS = 3  # native replays per run that end in a confirmed violation; later counterexamples are listed only
TOTAL_MEM_GB = int(os.environ.get("VERIF_MEM_GB", "56"))  # of 62; leave room for cargo/rustc and the OS
NJOBS = int(os.environ.get("VERIF_JOBS", "16"))

CBMC_BASE = [
    "--no-malloc-may-fail", "--no-undefined-shift-check", "--no-signed-overflow-check", "--nan-check",
    "--no-self-loops-to-assumptions", "--no-pointer-primitive-check", "--object-bits", "16",
    "--sat-solver", "cadical", "--slice-formula",
]
CBMC_NOMEM = ["--no-bounds-check", "--no-pointer-check"]

ENV = dict(os.environ)
ENV.update({"CARGO_NET_OFFLINE": "true", "CARGO_TERM_COLOR": "never"})
ENV.setdefault("VERIF_SEED", "0")


_LOG_LOCK = threading.Lock()


def log(msg):
    with _LOG_LOCK:
        sys.stdout.write(msg + "\n")
        sys.stdout.flush()


class Inst:
    """One solver query: a Kani harness plus the bound parameters it is run with."""

    def __init__(self, name, crate="core", tiers=("quick", "thorough"), unwind=None, unwindset=(), nomem=False,
                 timeout=600, mem_gb=6, expect="pass", bounds="", functions=(), stubs=(), sub="", role=None,
                 objbits=None, extra=()):
        self.name = name            # pretty name, e.g. "c20::attrs_roundtrip"
        self.crate = crate
        self.tiers = tuple(tiers)
        self.unwind = unwind        # global --unwind (None: no loops expected / constant-bounded)
        self.unwindset = tuple(unwindset)  # ((substring of the loop's function name, bound), ...)
        self.nomem = nomem          # --no-memory-safety-checks (only while /repo has no `unsafe`)
        self.timeout = timeout
        self.mem_gb = mem_gb
        self.expect = expect        # "pass" | "fail" (reachability witness twins)
        self.bounds = bounds
        self.functions = tuple(functions)
        self.stubs = tuple(stubs)
        self.sub = sub              # sub-claim label, e.g. "C02.a"
        self.role = role
        self.objbits = objbits
        self.extra = tuple(extra)   # extra cbmc flags for this instance


class Result:
    def __init__(self, inst):
        self.inst = inst
        self.status = "inconclusive"   # pass | fail | inconclusive
        self.reason = ""
        self.failed = []               # [{property, description, location}]
        self.covers = {}               # description -> satisfied?
        self.nprops = 0
        self.vars = 0
        self.clauses = 0
        self.solver_s = 0.0
        self.symex_s = 0.0
        self.wall_s = 0.0
        self.peak_rss_mb = 0
        self.unwindset = []
        self.values = None             # [[bytes...], ...] extracted from the counterexample trace
        self.replay = None
        self.known = None
        self.cmd = None


# ------------------------------------------------------------------------------------------------
# build

def _run(cmd, cwd=None, env=None, timeout=None, logf=None):
    p = subprocess.run(cmd, cwd=cwd, env=env or ENV, stdout=subprocess.PIPE, stderr=subprocess.STDOUT,
                       timeout=timeout, text=True, errors="replace")
    if logf:
        with open(logf, "a") as f:
            f.write("$ " + " ".join(cmd) + "\n" + p.stdout + "\n")
    return p.returncode, p.stdout


def run_tool(tool, args, workdir, release=True):
    """Build and run a native helper under /verif/tools against /repo (nightly, hooks on)."""
    tdir = os.path.join(ROOT, "tools", tool)
    shutil.copyfile(repo_lock(), os.path.join(tdir, "Cargo.lock"))
    env = dict(ENV)
    env["RUSTUP_TOOLCHAIN"] = "nightly"
    env["RUSTFLAGS"] = "--cfg weechess_verif -Awarnings"
    os.makedirs(TARGET, exist_ok=True)
    lockf = open(os.path.join(TARGET, "tools.lock"), "w")
    fcntl.flock(lockf, fcntl.LOCK_EX)
    try:
        ensure_fresh(os.path.join(TARGET, "tools"))
        cmd = ["cargo", "run", "--target-dir", os.path.join(TARGET, "tools")] + (["--release"] if release else []) + ["--"] + args
        return _run(cmd, cwd=tdir, env=env, timeout=1800, logf=os.path.join(workdir, "tools.log"))
    finally:
        fcntl.flock(lockf, fcntl.LOCK_UN)
        lockf.close()


def repo_content_hash():
    """Hash of everything the repository crates are built from (sources, manifests, build script inputs)."""
    h = hashlib.sha256()
    for top in ("weechess-core", "weechess-engine", "book"):
        base = os.path.join(REPO, top)
        for root, dirs, files in os.walk(base):
            dirs[:] = sorted(d for d in dirs if d not in ("target", ".git"))
            for f in sorted(files):
                p = os.path.join(root, f)
                h.update(os.path.relpath(p, REPO).encode())
                try:
                    h.update(open(p, "rb").read())
                except OSError:
                    h.update(b"<unreadable>")
    return h.hexdigest()


def ensure_fresh(target_dir):
    """Cargo decides freshness of path dependencies by mtime. A tree restored with old mtimes (or the
    .repo link pointed at another tree) would silently reuse the previous build of the repository crates.
    Compare a content hash instead and drop the cached builds of weechess_* when it changed."""
    os.makedirs(target_dir, exist_ok=True)
    stamp = os.path.join(target_dir, ".repo_content_hash")
    now = repo_content_hash() + "|" + os.path.realpath(REPO)
    try:
        old = open(stamp).read()
    except OSError:
        old = None
    if old == now:
        return
    if old is not None:
        for root, dirs, files in os.walk(target_dir):
            for d in list(dirs):
                if d.startswith("weechess_") or d.startswith("weechess-") or d.startswith("vh_") or d.startswith("tabledump"):
                    shutil.rmtree(os.path.join(root, d), ignore_errors=True)
                    dirs.remove(d)
            for f in files:
                if "weechess_" in f or "vh_" in f or f.startswith("tabledump") or f.startswith("libtabledump"):
                    try:
                        os.remove(os.path.join(root, f))
                    except OSError:
                        pass
    with open(stamp, "w") as f:
        f.write(now)


def repo_lock():
    """/repo's Cargo.lock is git-ignored there; a snapshot of its HEAD has none: fall back to the pinned copy."""
    p = os.path.join(REPO, "Cargo.lock")
    return p if os.path.exists(p) else os.path.join(ROOT, "harness", "Cargo.lock.pinned")


def crate_dir(crate):
    return os.path.join(ROOT, "harness", crate)


def build_crate(crate, feature, workdir):
    """cargo kani --only-codegen; returns {pretty_name: {"symtab":..., "mangled":..., "meta":...}}."""
    os.makedirs(TARGET, exist_ok=True)
    cdir = crate_dir(crate)
    tdir = os.path.join(TARGET, crate)
    lockf = open(os.path.join(TARGET, crate + ".lock"), "w")
    fcntl.flock(lockf, fcntl.LOCK_EX)
    try:
        shutil.copyfile(repo_lock(), os.path.join(cdir, "Cargo.lock"))
        ensure_fresh(tdir)
        outroot = os.path.join(tdir, "kani", TRIPLE, "debug", "build", "vh_" + crate)
        shutil.rmtree(outroot, ignore_errors=True)
        cmd = ["cargo", "kani", "--only-codegen", "--no-assertion-reach-checks", "--features", feature, "-Z", "stubbing", "--target-dir", tdir]
        t0 = time.time()
        rc, out = _run(cmd, cwd=cdir, logf=os.path.join(workdir, "build.log"))
        if rc != 0:
            return None, out
        metas = glob.glob(os.path.join(outroot, "*", "out", "*.kani-metadata.json"))
        if len(metas) != 1:
            return None, "expected exactly one kani-metadata.json, found %d\n%s" % (len(metas), out[-3000:])
        meta = json.load(open(metas[0]))
        res = {}
        for h in meta["proof_harnesses"]:
            src = h["goto_file"]
            dst = os.path.join(workdir, re.sub(r"[^A-Za-z0-9_]", "_", h["pretty_name"]) + ".symtab.out")
            shutil.copyfile(src, dst)
            res[h["pretty_name"]] = {"symtab": dst, "mangled": h["mangled_name"], "meta": h}
        log("[build] %s/%s: %d harnesses code-generated in %.0fs" % (crate, feature, len(res), time.time() - t0))
        return res, out
    finally:
        fcntl.flock(lockf, fcntl.LOCK_UN)
        lockf.close()


def prepare_goto(h, workdir, logf):
    """The post-codegen steps kani-driver performs (kani 0.68 --verbose)."""
    out = h["symtab"][:-len(".symtab.out")] + ".out"
    steps = [
        ["goto-cc", h["symtab"], KANI_LIB_C, "-o", out],
        ["goto-cc", out, "--function", h["mangled"], "-o", out],
        ["goto-instrument", "--add-library", "--no-malloc-may-fail", out, out],
        ["goto-instrument", "--generate-function-body-options", "assert-false-assume-false",
         "--generate-function-body", ".*", "--drop-unused-functions", out, out],
        ["goto-instrument", "--ensure-one-backedge-per-target", out, out],
    ]
    for s in steps:
        rc, o = _run(s, logf=logf)
        if rc != 0:
            return None, "post-codegen step failed: %s\n%s" % (" ".join(s[:2]), o[-2000:])
    return out, ""


def show_loops(out, logf):
    rc, o = _run(["cbmc", "--show-loops", out], logf=None)
    loops = []
    cur = None
    for line in o.splitlines():
        m = re.match(r"^Loop (\S+):$", line)
        if m:
            cur = {"id": m.group(1), "where": ""}
            loops.append(cur)
        elif cur is not None and line.strip().startswith("file "):
            cur["where"] = line.strip()
    with open(logf, "a") as f:
        f.write("loops:\n" + "\n".join("  %s  %s" % (l["id"], l["where"]) for l in loops) + "\n")
    return loops


def make_unwindset(loops, patterns):
    """patterns: ((substr, n), ...). substr is matched against the loop's 'function' (pretty) and id.
    A pattern may end in '#<k>' to select loop number k of that function only."""
    us = []
    hit = {p[0]: 0 for p in patterns}
    for l in loops:
        for pat, n in patterns:
            sub, _, k = pat.partition("#")
            hay = l["id"] + " " + l["where"]
            if sub in hay and (not k or l["id"].endswith("." + k)):
                us.append("%s:%d" % (l["id"], n))
                hit[pat] += 1
                break
    return us, [p for p, c in hit.items() if c == 0]


# ------------------------------------------------------------------------------------------------
# run CBMC

def run_limited(cmd, outfile, timeout, mem_gb):
    """Run cmd with stdout -> outfile under a wall-clock and address-space cap. Returns (rc, timed_out, peak_rss_mb)."""
    with open(outfile, "w") as jout:
        p = subprocess.Popen(cmd, stdout=jout, stderr=subprocess.STDOUT, preexec_fn=_limit(mem_gb), env=ENV)
        deadline = time.time() + timeout
        while True:
            pid, st, ru = os.wait4(p.pid, os.WNOHANG)
            if pid != 0:
                p.returncode = os.waitstatus_to_exitcode(st)
                return p.returncode, False, ru.ru_maxrss // 1024
            if time.time() > deadline:
                try:
                    os.killpg(p.pid, signal.SIGKILL)
                except ProcessLookupError:
                    pass
                pid, st, ru = os.wait4(p.pid, 0)
                p.returncode = -9
                return -9, True, ru.ru_maxrss // 1024
            time.sleep(0.2)


def _limit(mem_gb):
    def f():
        os.setsid()
        lim = int(mem_gb * (1 << 30))
        resource.setrlimit(resource.RLIMIT_AS, (lim, lim))
    return f


def bits_to_bytes(binary):
    n = len(binary) // 8
    return [int(binary[8 * i:8 * i + 8], 2) for i in range(n)][::-1]  # little endian


def value_bytes(v):
    if v is None:
        return None
    if "binary" in v:
        return bits_to_bytes(v["binary"])
    if "elements" in v:
        out = []
        for e in v["elements"]:
            b = value_bytes(e.get("value"))
            if b is None:
                return None
            out += b
        return out
    if "members" in v:
        out = []
        for e in v["members"]:
            b = value_bytes(e.get("value"))
            if b is None:
                return None
            out += b
        return out
    return None


def trace_values(trace):
    """Nondet values in program order: the return-value assignments of kani::any_raw_*. An array shows up as
    one whole-object assignment and (without formula slicing) once more element by element: keep one form."""
    vals = []
    whole_seen = set()   # base lhs of whole-array assignments already taken
    for s in trace:
        if s.get("stepType") != "assignment":
            continue
        lhs = s.get("lhs", "")
        fn = s.get("sourceLocation", {}).get("function", "")
        if not (lhs.startswith("goto_symex$$return_value") and fn.startswith("kani::any_raw_")):
            continue
        base = lhs.split("[", 1)[0].split(".", 1)[0]
        is_part = base != lhs
        if is_part and base in whole_seen:
            continue  # element of an array already recorded as a whole
        b = value_bytes(s.get("value"))
        if b is None:
            continue
        if not is_part and "elements" in (s.get("value") or {}):
            whole_seen.add(base)
        elif not is_part:
            whole_seen.discard(base)  # a fresh scalar call reusing the symbol name
        vals.append(b)
    return vals


def fetch_trace_values(cmd, prop, workdir, safe, inst):
    """Second pass: only the failing property, with --trace, to read the solver's input values."""
    jf = os.path.join(workdir, safe + ".trace.json")
    # without --slice-formula: the slicer drops assignments that do not influence the property, and with
    # them the nondet values a native replay needs in order (seen: the last entry's fields missing)
    cmd2 = [c for c in cmd if c != "--slice-formula"]
    rc, timed_out, _ = run_limited(cmd2 + ["--trace", "--property", prop], jf, inst.timeout * 2, max(inst.mem_gb * 2, 16))
    if timed_out or rc not in (0, 10):
        return None
    try:
        data = json.load(open(jf))
    except Exception:
        return None
    for o in data:
        for r in o.get("result", []) if isinstance(o, dict) else []:
            if r.get("property") == prop and r.get("trace"):
                return trace_values(r["trace"])
    return None


def prop_class(r):
    sl = r.get("sourceLocation") or {}
    c = sl.get("propertyClass")
    if c:
        return c
    parts = r.get("property", "").rsplit(".", 2)
    return parts[-2] if len(parts) >= 2 else "?"


def clean_desc(d):
    return re.sub(r"^\[KANI_CHECK_ID_[^\]]*\]\s*", "", d or "").strip().strip('"')


def run_inst(inst, h, workdir):
    res = run_inst_once(inst, h, workdir, True)
    if res.status == "inconclusive" and res.reason.startswith("unwinding assertion failed") and inst.unwindset:
        # loop numbering may have shifted on this tree: fall back to the global bound for every loop
        log("[cbmc] %-52s retrying without per-loop unwindset (%s)" % (inst.name, res.reason[:120]))
        first = res
        res = run_inst_once(inst, h, workdir, False)
        res.wall_s += first.wall_s
    return res


def run_inst_once(inst, h, workdir, use_unwindset):
    res = Result(inst)
    t0 = time.time()
    safe = re.sub(r"[^A-Za-z0-9_]", "_", inst.name)
    logf = os.path.join(workdir, safe + ".log")
    out, err = prepare_goto(h, workdir, logf)
    if out is None:
        res.reason = err
        return res
    flags = list(CBMC_BASE)
    if inst.objbits:
        i = flags.index("--object-bits")
        flags[i + 1] = str(inst.objbits)
    if inst.nomem:
        flags += CBMC_NOMEM
    flags += list(inst.extra)
    unwind = inst.unwind if inst.unwind is not None else h["meta"]["attributes"].get("unwind_value")
    if unwind is not None:
        flags += ["--unwind", str(unwind)]
    if inst.unwindset and use_unwindset:
        loops = show_loops(out, logf)
        us, missing = make_unwindset(loops, inst.unwindset)
        res.unwindset = us
        if us:
            flags += ["--unwindset", ",".join(us)]
        if missing:
            with open(logf, "a") as f:
                f.write("unwindset patterns without a loop (global bound applies): %s\n" % missing)
    cmd = ["cbmc"] + flags + [out, "--verbosity", "8", "--json-ui"]
    res.cmd = cmd
    with open(logf, "a") as f:
        f.write("$ " + " ".join(cmd) + "\n")
    jf = os.path.join(workdir, safe + ".json")
    rc, timed_out, rss = run_limited(cmd, jf, inst.timeout, inst.mem_gb)
    res.peak_rss_mb = rss
    res.wall_s = time.time() - t0
    returncode = rc
    if timed_out:
        res.reason = "timeout after %ds" % inst.timeout
        return res
    if returncode not in (0, 10):
        res.reason = "cbmc exit status %s (memory cap %d GB or internal error)" % (returncode, inst.mem_gb)
        return res
    try:
        data = json.load(open(jf))
    except Exception as e:  # truncated output
        res.reason = "unparsable cbmc output: %s" % e
        return res
    results = None
    for o in data:
        if "messageText" in o:
            t = o["messageText"]
            m = re.match(r"(\d+) variables, (\d+) clauses", t)
            if m:
                res.vars, res.clauses = int(m.group(1)), int(m.group(2))
            m = re.match(r"Runtime Solver: ([\d.e+-]+)s", t)
            if m:
                res.solver_s += float(m.group(1))
            m = re.match(r"Runtime Symex: ([\d.e+-]+)s", t)
            if m:
                res.symex_s += float(m.group(1))
            if o.get("messageType") == "ERROR":
                res.reason = "cbmc error: " + t[:300]
        if "result" in o:
            results = o["result"]
    if results is None:
        res.reason = res.reason or "no result section in cbmc output"
        return res
    res.nprops = len(results)
    hard, unwind_fail, unsupported = [], [], []
    for r in results:
        c = prop_class(r)
        st = r.get("status")
        if c == "cover":
            # Kani encodes cover!(c) as assert(!c): FAILURE <=> satisfiable
            res.covers[clean_desc(r.get("description"))] = (st == "FAILURE")
            continue
        if c == "reachability_check":
            continue
        if st != "FAILURE":
            continue
        item = {"property": r.get("property"), "class": c, "description": clean_desc(r.get("description")),
                "location": "%s:%s" % ((r.get("sourceLocation") or {}).get("file"), (r.get("sourceLocation") or {}).get("line")),
                "trace": r.get("trace")}
        if c == "unwind":
            unwind_fail.append(item)
        elif c in ("unsupported_construct",):
            unsupported.append(item)
        else:
            hard.append(item)
    if hard:
        # user assertions first, then Kani/Rust-inserted checks
        hard.sort(key=lambda i: 0 if i["class"] == "assertion" else 1)
        first = hard[0]
        # a reachability witness is expected to fail and is never replayed: no trace needed
        res.values = fetch_trace_values(res.cmd, first["property"], workdir, safe, inst) if inst.expect == "pass" else []
        res.failed = [{k: v for k, v in i.items() if k != "trace"} for i in hard]
        res.status = "fail"
        res.reason = "%s at %s" % (first["description"], first["location"])
    elif unwind_fail:
        res.reason = "unwinding assertion failed (bound too small for this tree): " + ", ".join(
            i["property"] for i in unwind_fail[:4])
    elif unsupported:
        res.reason = "reachable unsupported construct: " + unsupported[0]["description"]
    else:
        unsat = [d for d, ok in res.covers.items() if not ok]
        if unsat and inst.expect == "pass":
            res.reason = "cover witness not satisfied (vacuity guard): " + "; ".join(unsat)
        else:
            res.status = "pass"
    # drop the (large) json unless something went wrong
    if res.status == "pass":
        try:
            os.remove(jf)
        except OSError:
            pass
    return res


# ------------------------------------------------------------------------------------------------
# native replay of a counterexample (no stubs; dev and release)

def encode_values(vals):
    return ";".join(",".join("%02x" % b for b in v) for v in vals)


def replay_native(inst, values, workdir, profiles=("dev", "release"), feature=None):
    """Run the harness function natively as a #[test] (cfg replay), feeding it the solver's values."""
    cdir = crate_dir(inst.crate)
    out = {}
    env = dict(ENV)
    env["RUSTUP_TOOLCHAIN"] = "nightly"
    env["RUSTFLAGS"] = "--cfg replay --cfg weechess_verif -Awarnings"
    env["VERIF_REPLAY"] = encode_values(values)
    mod, _, fn = inst.name.rpartition("::")
    feature = feature or mod.split("::")[0]
    for prof in profiles:
        tdir = os.path.join(TARGET, "replay-" + inst.crate)
        cmd = ["cargo", "test", "--lib", "--features", feature, "--target-dir", tdir]
        if prof == "release":
            cmd.append("--release")
        cmd += ["--", inst.name, "--exact", "--nocapture", "--test-threads", "1"]
        lockf = open(os.path.join(TARGET, "replay-%s.lock" % inst.crate), "w")
        fcntl.flock(lockf, fcntl.LOCK_EX)
        try:
            ensure_fresh(tdir)
            rc, o = _run(cmd, cwd=cdir, env=env, timeout=1800,
                         logf=os.path.join(workdir, "replay.log"))
        except subprocess.TimeoutExpired:
            rc, o = -1, "replay timed out"
        finally:
            fcntl.flock(lockf, fcntl.LOCK_UN)
            lockf.close()
        cases = [l[l.index("CASE ") + 5:] for l in o.splitlines() if "CASE {" in l]
        panic = ""
        m = re.search(r"panicked at ([^\n]*)\n([^\n]*)", o)
        if m:
            panic = (m.group(1) + " " + m.group(2)).strip()
        if "running 1 test" not in o:
            verdict = "not-run"
        elif "REPLAY-ASSUME-VIOLATED" in o or "REPLAY-EXHAUSTED" in o or "REPLAY-MISMATCH" in o:
            verdict = "mismatch"
        elif rc == 0 and "test result: ok. 1 passed" in o:
            verdict = "passed"
        elif "test result: FAILED" in o or panic:
            verdict = "reproduced"
        else:
            verdict = "not-run"
        out[prof] = {"verdict": verdict, "panic": panic, "cases": cases, "tail": o[-1500:] if verdict == "not-run" else ""}
    return out


def write_replay(path, pid, inst, r, feature=None):
    doc = {"property": pid, "harness": inst.name, "crate": inst.crate, "feature": feature,
           "values_hex": encode_values(r.values or []), "failed": r.failed, "replay": r.replay,
           "repo_head": git_head(REPO),
           "how_to_rerun": "./check replay " + path}
    with open(path, "w") as f:
        json.dump(doc, f, indent=1)


def replay_file(path):
    """./check replay <file>: re-execute a stored counterexample natively against /repo's current tree."""
    doc = json.load(open(path))
    inst = Inst(doc["harness"], crate=doc["crate"])
    vals = [[int(b, 16) for b in v.split(",")] for v in doc["values_hex"].split(";") if v]
    workdir = os.path.join(WORK, "replay")
    os.makedirs(workdir, exist_ok=True)
    out = replay_native(inst, vals, workdir, feature=doc.get("feature"))
    rc = 0
    for prof, v in out.items():
        log("native %s: %s %s" % (prof, v["verdict"], v["panic"]))
        for c in v["cases"]:
            log("  CASE " + c)
        if v["verdict"] == "reproduced":
            rc = 1
    if rc:
        log("VIOLATION property=%s replay=%s" % (doc["property"], path))
    return rc


# ------------------------------------------------------------------------------------------------
# known findings

def load_known():
    p = os.path.join(ROOT, "known_findings.json")
    if not os.path.exists(p):
        return []
    return json.load(open(p)).get("findings", [])


def match_known(known, pid, res):
    """A finding is keyed by role: harness (glob) + the text of the failing assertion."""
    import fnmatch
    descs = [f["description"] for f in res.failed]
    for k in known:
        if k.get("property") != pid or k.get("status") != "known":
            continue
        if not fnmatch.fnmatch(res.inst.name, k["harness"]):
            continue
        # every failing assertion of this instance must be covered by the finding
        if descs and all(any(a in d for a in k["assertions"]) for d in descs):
            return k
    return None


# ------------------------------------------------------------------------------------------------
# scheduling

def run_all(insts, harnesses, workdir, on_result=None):
    results = {}
    lock = threading.Lock()
    cond = threading.Condition(lock)
    state = {"mem": 0, "running": 0}
    order = sorted(insts, key=lambda i: (-i.mem_gb, -i.timeout))  # heaviest (= longest) first: they start at t=0
    pending = [i.name for i in order]

    def may_start(inst):
        # first fit in priority order: an instance starts only if no earlier pending instance would fit now
        # (otherwise small jobs keep taking the memory a heavy one waits for, and the heavy one runs last, alone)
        if state["running"] >= NJOBS:
            return False
        if state["running"] == 0:
            return pending[0] == inst.name
        by_name = {i.name: i for i in order}
        for n in pending:
            if state["mem"] + by_name[n].mem_gb <= TOTAL_MEM_GB:
                return n == inst.name
        return False

    def worker(inst):
        with cond:
            while not may_start(inst):
                cond.wait()
            pending.remove(inst.name)
            state["running"] += 1
            state["mem"] += inst.mem_gb
            cond.notify_all()
        try:
            h = harnesses[inst.crate].get(inst.name)
            if h is None:
                r = Result(inst)
                r.reason = "harness not found in kani metadata (renamed or not compiled)"
            else:
                r = run_inst(inst, h, workdir)
        except Exception as e:  # never let a driver bug look like a pass
            r = Result(inst)
            r.reason = "driver exception: %r" % (e,)
        with cond:
            state["running"] -= 1
            state["mem"] -= inst.mem_gb
            results[inst.name] = r
            cond.notify_all()
        if on_result is not None:
            try:
                on_result(r)
            except Exception as e:  # a driver bug must not look like a pass
                r.status = "inconclusive"
                r.reason = "driver exception while handling the result: %r" % (e,)
        log("[cbmc] %-52s %-12s %6.1fs  %s" % (inst.name, r.status.upper(), r.wall_s,
                                                 r.reason if r.status != "pass" else
                                                 "%d props, %d/%d covers, %d vars, %d MB" % (r.nprops, sum(r.covers.values()), len(r.covers), r.vars, r.peak_rss_mb)))
        return r

    with cf.ThreadPoolExecutor(max_workers=max(len(order), 1)) as ex:  # one thread per instance: may_start needs every pending one waiting
        list(ex.map(worker, order))
    return [results[i.name] for i in insts]


def repo_has_unsafe():
    for root, _, files in os.walk(REPO):
        if "/target" in root or "/.git" in root:
            continue
        for f in files:
            if f.endswith(".rs"):
                try:
                    if re.search(r"\bunsafe\b", open(os.path.join(root, f), errors="replace").read()):
                        return True
                except OSError:
                    pass
    return False


def git_head(path):
    try:
        return subprocess.check_output(["git", "-C", path, "rev-parse", "--short", "HEAD"], text=True).strip()
    except Exception:
        return "?"


def check(pid, plan, tier, only=None, seed=0, evidence=True):
    """Run all instances of property `pid` for `tier`. Returns exit code."""
    t0 = time.time()
    workdir = os.path.join(WORK, "%s-%s%s%s" % (pid, tier, ("-" + re.sub(r"[^A-Za-z0-9_]", "_", only)) if only else "",
                                                  "" if evidence else "-gate"))
    shutil.rmtree(workdir, ignore_errors=True)
    os.makedirs(workdir)
    os.makedirs(EVID, exist_ok=True)
    insts = [i for i in plan["insts"] if tier in i.tiers and (only is None or only in i.name)]
    if repo_has_unsafe():
        for i in insts:
            i.nomem = False
        log("[note] `unsafe` found in /repo: memory-safety checks re-enabled for all instances")
    exit_code = 0
    notes = []
    # prerequisites (assume-guarantee chain, DESIGN §3.2)
    prereq_fail = None
    for pre in plan.get("prereq", ()):
        ok, why = pre(workdir, tier)
        if not ok:
            prereq_fail = why
            break
        if why:
            notes.append(why)
    harnesses = {}
    build_err = None
    if prereq_fail is None:
        for gen in plan.get("pregen", ()):
            ok, why = gen(workdir)
            if not ok:
                prereq_fail = why
                break
    if prereq_fail is None:
        for crate in sorted({i.crate for i in insts}):
            feats = plan["feature"]
            hs, out = build_crate(crate, feats, workdir)
            if hs is None:
                build_err = "harness crate %s does not build against /repo:\n%s" % (crate, out[-3000:])
                break
            harnesses[crate] = hs
    known = load_known()
    violations, inconclusive, known_hits, unreplayed = [], [], [], []
    hlock = threading.Lock()

    def handle(r):
        """Called as soon as an instance finishes: replay a failure natively and report it at once."""
        i = r.inst
        if i.expect == "fail":
            # reachability witness: must FAIL on its `assert!(false)`
            if r.status == "fail":
                r.status = "pass"
                r.reason = "witness reached"
                r.failed = []
            elif r.status == "pass":
                r.status = "inconclusive"
                r.reason = "reachability witness passed: harness is vacuous"
        if r.status == "fail":
            with hlock:
                enough = len(violations) >= MAX_REPLAYS
            if enough:
                # enough confirmed violations: further solver counterexamples are listed, not replayed (each
                # replay costs two native test runs; a change that breaks all 64 squares would take 40 minutes)
                r.reason = "solver counterexample, not replayed (%d violations already confirmed natively): %s" % (MAX_REPLAYS, r.reason)
                with hlock:
                    unreplayed.append(r)
                return
            os.makedirs(REPLAYS, exist_ok=True)
            r.replay = replay_native(i, r.values or [], workdir, feature=plan["feature"])
            verdicts = {p: v["verdict"] for p, v in r.replay.items()}
            if "reproduced" in verdicts.values():
                k = match_known(known, pid, r)
                rp = os.path.join(REPLAYS, "%s-%s.json" % (pid, re.sub(r"[^A-Za-z0-9_]", "_", i.name)))
                write_replay(rp, pid, i, r, plan["feature"])
                with hlock:
                    if k:
                        r.known = k
                        known_hits.append((r, k))
                    else:
                        violations.append((r, rp))
                if not k:
                    # report at once: a run that is cut short still shows what was confirmed
                    lines = ["VIOLATION property=%s replay=%s" % (pid, rp), "  harness %s: %s" % (i.name, r.reason)]
                    for prof, v in (r.replay or {}).items():
                        lines.append("  native %s: %s %s" % (prof, v["verdict"], v["panic"]))
                        for c in v["cases"][:3]:
                            lines.append("    CASE " + c)
                    log("\n".join(lines))
            else:
                r.status = "inconclusive"
                r.reason = "counterexample did not reproduce natively (%s): a stub, reference or assumption is off: %s" % (
                    verdicts, r.reason)
        if r.status == "inconclusive":
            with hlock:
                inconclusive.append(r)

    results = []
    if prereq_fail is None and build_err is None:
        results = run_all(insts, harnesses, workdir, on_result=handle)
    for r, k in known_hits:
        log("KNOWN-FINDING: property=%s %s [%s]" % (pid, k["what"], r.inst.name))
    for r in unreplayed:
        log("UNREPLAYED property=%s harness=%s: %s" % (pid, r.inst.name, r.reason))
    if prereq_fail:
        log("INCONCLUSIVE property=%s prerequisite: %s" % (pid, prereq_fail))
    if build_err:
        log("INCONCLUSIVE property=%s %s" % (pid, build_err))
    for r in inconclusive:
        log("INCONCLUSIVE property=%s harness=%s: %s" % (pid, r.inst.name, r.reason))
    if violations:
        exit_code = 1
    elif inconclusive or prereq_fail or build_err or not results:
        exit_code = 2
    evdir = EVID if (evidence and only is None and tier in ("quick", "thorough")) else workdir  # partial/debug runs never touch evidence/
    write_evidence(pid, plan, tier, seed, results, violations, inconclusive, known_hits, time.time() - t0,
                   prereq_fail or build_err, evdir, notes)
    log("[done] %s tier=%s: %d instances, %d discharged, %d violations, %d known, %d inconclusive, %.0fs -> exit %d" % (
        pid, tier, len(results), sum(1 for r in results if r.status == "pass"), len(violations), len(known_hits),
        len(inconclusive), time.time() - t0, exit_code))
    return exit_code


def write_evidence(pid, plan, tier, seed, results, violations, inconclusive, known_hits, wall, fatal, evdir=EVID, notes=()):
    discharged = [r for r in results if r.status == "pass"]
    nontrivial = [r for r in discharged if r.inst.expect == "pass" and r.covers and all(r.covers.values())]
    samples = []
    for r in results:
        samples.append({
            "harness": r.inst.name, "sub_claim": r.inst.sub, "verdict": r.status if not r.known else "known-finding",
            "bounds": r.inst.bounds, "unwind": r.inst.unwind, "unwindset": r.unwindset,
            "memory_safety_checks": not r.inst.nomem, "stubs": list(r.inst.stubs),
            "cbmc_properties": r.nprops, "covers": r.covers, "sat_variables": r.vars, "sat_clauses": r.clauses,
            "solver_s": round(r.solver_s, 2), "symex_s": round(r.symex_s, 2), "wall_s": round(r.wall_s, 1), "peak_rss_mb": r.peak_rss_mb,
            "note": r.reason,
        })
    funcs = sorted({f for r in results for f in r.inst.functions})
    stubs = sorted({s for r in results for s in r.inst.stubs})
    ev = {
        "property_id": pid,
        "tier": tier if tier in ("quick", "thorough") else "quick",
        "seed": seed,
        "level": "model_checking",
        "coverage": {
            "evaluations": len(results),
            "distinct_nontrivial": len(nontrivial),
            "rule": "one evaluation = one CBMC query (a Kani harness instance over symbolic inputs, compiled from /repo's "
                    "working tree on this run); it counts as non-trivial when it was discharged AND every kani::cover! "
                    "witness inside it was satisfied (the assertions are reached on the interesting regions); "
                    "reachability-witness twins (expected to fail) are evaluations but never counted as non-trivial",
            "samples": samples,
            "exhaustive": bool(plan.get("exhaustive", False)) and not inconclusive and not fatal and bool(results),
            "functions_encoded": funcs,
            "bounds": plan.get("bounds", ""),
            "outside_claim": plan.get("outside", []),
            "queries_discharged": len(discharged),
            "cbmc_properties_checked": sum(r.nprops for r in results),
            "solver_time_s": round(sum(r.solver_s for r in results), 1),
            "symex_time_s": round(sum(r.symex_s for r in results), 1),
            "inconclusive": [{"harness": r.inst.name, "why": r.reason} for r in inconclusive] + (
                [{"harness": "*", "why": fatal}] if fatal else []),
            "known_findings_hit": [k["what"] for _, k in known_hits],
            "counterexamples_not_replayed": [r.inst.name for r in results if r.status == "fail" and r.replay is None and not r.known],
            "trusted_base": plan.get("trusted", []),
            "engine": "Kani 0.68.0 (kani-compiler) -> CBMC 6.11.0 --sat-solver cadical",
            "repo_head": git_head(REPO),
        },
        "assumptions": list(plan.get("assumptions", [])) + ["stub: " + s for s in stubs] + ["prerequisite: " + n for n in notes],
        "wall_s": round(wall, 1),
        "violations": len(violations),
    }
    with open(os.path.join(evdir, pid + ".json"), "w") as f:
        json.dump(ev, f, indent=1)


def main():
    import argparse
    link_repo()
    sys.path.insert(0, os.path.join(ROOT, "lib"))
    import plan as planmod
    ap = argparse.ArgumentParser()
    ap.add_argument("pid")
    ap.add_argument("file", nargs="?")
    ap.add_argument("--tier", default=os.environ.get("VERIF_TIER", "quick"))
    ap.add_argument("--only", default=None, help="substring filter on harness names (debugging)")
    a = ap.parse_args()
    if a.tier not in ("quick", "thorough", "probe"):
        a.tier = "quick"
    seed = int(os.environ.get("VERIF_SEED", "0") or 0)
    if a.pid == "replay":
        sys.exit(replay_file(a.file))
    if a.pid == "setup":
        sys.exit(planmod.setup())
    if a.pid not in planmod.PLAN:
        log("unknown or unclaimed property %s" % a.pid)
        sys.exit(2)
    sys.exit(check(a.pid, planmod.PLAN[a.pid], a.tier, a.only, seed))
