#!/usr/bin/env python3
"""Markdown table of the last run of every check (from evidence/*.json) for DESIGN.md §10."""
import json, glob, os
ROOT = os.path.dirname(os.path.dirname(os.path.abspath(__file__)))
print("| check | tier | instances | discharged | wall (s) | solver (s) | largest instance (wall s, peak MB) |")
print("|---|---|---|---|---|---|---|")
for f in sorted(glob.glob(os.path.join(ROOT, "evidence", "C*.json"))):
    e = json.load(open(f))
    c = e["coverage"]
    s = sorted(c["samples"], key=lambda x: -x.get("wall_s", 0))
    big = s[0] if s else {}
    print("| %s | %s | %d | %d | %d | %d | %s (%d s, %s MB) |" % (e["property_id"], e["tier"], c["evaluations"], c["queries_discharged"], e["wall_s"],
          c.get("solver_time_s", 0), big.get("harness", "-"), big.get("wall_s", 0), big.get("peak_rss_mb", "?")))
