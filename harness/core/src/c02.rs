//! C02 — applying a move yields the correct successor position (DESIGN §4.2).
//! `State::by_performing_move` has no population loop, so the position is *unbounded*: twelve free
//! bitboards, symbolic side, rights, en-passant target, clocks (< 2^32) and move coordinates.

use crate::geo::*;
use crate::rules::*;
use crate::sym::*;
use weechess_core::*;

#[cfg(replay)]
use crate::kani;

/// class: 0 = knight/bishop/rook/queen, 1 = king (steps and castling), 2 = pawn (push, double step,
/// capture, en passant, promotion)
fn step(class: u8, tag: &str) -> (Pos, Mv, Pos) {
    let bb = any_bb();
    let wtm: bool = kani::any();
    let p = any_pos_around(bb, wtm);
    kani::assume(legal_position(&p));
    let m = any_mv();
    print_pos(tag, &p);
    print_mv(tag, m);
    kani::assume(fide_pseudo(&p, m));
    let k = p.kind_at(p.us(), m.from);
    match class {
        0 => kani::assume(k >= 2 && k <= 5),
        1 => kani::assume(k == 6),
        _ => kani::assume(k == 1),
    }
    let s = to_state(&p);
    let mv = build_move(&p, m);
    let got = State::by_performing_move(&s, &mv);
    assert!(got.is_ok(), "a pseudo-legal move is performed without error");
    let got = got.unwrap();
    let g = from_state(&got);
    let want = apply_ref(&p, m);
    assert!(same_bb(&g.bb, &want.bb), "piece placement after the move (both colours)");
    assert!(none_slots_empty(&got), "no stray bits in unused piece slots");
    assert!(g.wtm == want.wtm, "other side to move");
    assert!(g.rights[0] == want.rights[0] && g.rights[1] == want.rights[1] && g.rights[2] == want.rights[2] && g.rights[3] == want.rights[3], "castling rights reduced exactly when king moves / rook leaves or is captured on its corner");
    assert!(g.ep == want.ep, "en-passant target exactly after a double pawn step");
    assert!(g.half == want.half, "halfmove clock reset on pawn moves and captures, else incremented");
    assert!(g.full == want.full, "fullmove number incremented after Black's move");
    // derived board data must agree with the placement (occupancy caches)
    let occ: u64 = got.board().occupancy().into();
    let wocc: u64 = got.board().colored_occupancy(Color::White).into();
    let bocc: u64 = got.board().colored_occupancy(Color::Black).into();
    assert!(occ == want.occ() && wocc == want.occ_c(0) && bocc == want.occ_c(1), "occupancy summaries match the placement");
    // the input position is untouched (it is borrowed immutably; checked anyway)
    assert!(same_pos(&from_state(&s), &p), "the original position is unchanged");
    // C02.b: induction step — a legal move leads to a legal position again
    if legal_ref(&p, m) {
        assert!(structure_ok(&want), "successor keeps one king each, disjoint boards, no pawn on ranks 1/8");
        assert!(rights_ok(&want), "successor rights imply king and rook at home");
        assert!(ep_ok(&want), "successor ep target sits behind a pawn that just double-stepped");
        assert!(!attacked_ref(&want.bb, want.us(), want.king_sq(want.them())), "side that just moved is not in check");
    }
    (p, m, want)
}

#[cfg_attr(kani, kani::proof)]
#[cfg_attr(replay, test)]
fn step_pieces() {
    let (p, m, want) = step(0, "c02 step_pieces");
    let k = p.kind_at(p.us(), m.from);
    kani::cover!(p.kind_at(p.them(), m.to) == 4 && (m.to == 0 || m.to == 7 || m.to == 56 || m.to == 63) && p.rights != want.rights, "rook captured on its corner takes the right away");
    kani::cover!(k == 4 && p.rights != want.rights, "rook leaving its corner loses the right");
    kani::cover!(p.ep != NO_SQ, "pending en-passant target is cleared by a piece move");
    kani::cover!(legal_ref(&p, m) && !p.wtm, "legal black piece move");
}

#[cfg_attr(kani, kani::proof)]
#[cfg_attr(replay, test)]
fn step_king() {
    let (p, m, _want) = step(1, "c02 step_king");
    kani::cover!(castle_side_of(&p, m) == 1 && p.wtm, "white castles king side");
    kani::cover!(castle_side_of(&p, m) == 2 && !p.wtm, "black castles queen side");
    kani::cover!(castle_side_of(&p, m) == 0 && p.rights[2] && !p.wtm, "black king step forfeits rights");
    kani::cover!(p.kind_at(p.them(), m.to) != 0, "king captures");
}

#[cfg_attr(kani, kani::proof)]
#[cfg_attr(replay, test)]
fn step_pawn() {
    let (p, m, want) = step(2, "c02 step_pawn");
    kani::cover!(is_ep_capture(&p, m) && p.wtm, "white captures en passant");
    kani::cover!(is_ep_capture(&p, m) && !p.wtm, "black captures en passant");
    kani::cover!(want.ep != NO_SQ && !p.wtm, "black double step sets the target");
    kani::cover!(m.promo == 2 && p.kind_at(p.them(), m.to) == 4 && p.rights != want.rights, "under-promotion capturing a cornered rook");
    kani::cover!(m.promo == 5 && p.kind_at(p.them(), m.to) == 0 && !p.wtm, "black queens by pushing");
}

/// An en-passant move value applied where no target is pending is refused, not mis-applied.
#[cfg_attr(kani, kani::proof)]
#[cfg_attr(replay, test)]
fn ep_without_target_is_refused() {
    let bb = any_bb();
    let wtm: bool = kani::any();
    let mut p = any_pos_around(bb, wtm);
    p.ep = NO_SQ;
    let from: u8 = kani::any();
    let to: u8 = kani::any();
    kani::assume(from < 64 && to < 64);
    kani::assume(p.kind_at(p.us(), from) == 1);
    print_pos("c02 ep_refused", &p);
    let s = to_state(&p);
    let mv = Move::by_en_passant(pi(p.us(), 1), sq(from), sq(to));
    let got = State::by_performing_move(&s, &mv);
    assert!(got.is_err(), "en passant without a pending target is rejected");
    assert!(same_pos(&from_state(&s), &p), "the position is unchanged by the rejected move");
}

/// C02.c — coordinate selection: a query built the way the UCI loop builds it (origin, destination,
/// optional promotion letter) matches a move iff the coordinates agree and the letter, when given, is
/// the promotion piece or (documented leniency) the moving piece of a non-promotion.
#[cfg_attr(kani, kani::proof)]
#[cfg_attr(replay, test)]
fn coordinate_query() {
    let bb = any_bb();
    let wtm: bool = kani::any();
    let p = any_pos_around(bb, wtm);
    let m = any_mv();
    kani::assume(fide_pseudo(&p, m));
    let mv = build_move(&p, m);
    let qf: u8 = kani::any();
    let qt: u8 = kani::any();
    let ql: u8 = kani::any(); // 0 none, 2..5 promotion letter n b r q
    kani::assume(qf < 64 && qt < 64 && (ql == 0 || (ql >= 2 && ql <= 5)));
    print_pos("c02 coordinate_query", &p);
    print_mv("c02 coordinate_query", m);
    println!("CASE {{\"harness\":\"c02 coordinate_query\",\"qfrom\":{},\"qto\":{},\"qletter\":{}}}", qf, qt, ql);
    let mut q = MoveQuery::by_moving_from_to(sq(qf), sq(qt));
    if ql != 0 {
        q.set_promotion(piece_of(ql));
    }
    let hit = q.test(&mv);
    let squares = qf == m.from && qt == m.to;
    if !squares {
        assert!(!hit, "other coordinates never select the move");
    } else if ql == 0 {
        assert!(hit, "origin and destination select the move");
    } else if m.promo != 0 {
        assert!(hit == (ql == m.promo), "a promotion letter selects exactly that promotion");
    }
    // (a redundant letter on a non-promotion is left to the resolver's documented leniency: not constrained)
    // a promotion letter always distinguishes the four promotions of one pawn step
    if m.promo != 0 && ql != 0 && qf == m.from && qt == m.to {
        assert!(hit == (ql == m.promo), "promotion letter picks exactly that promotion");
    }
    kani::cover!(hit && m.promo == 3, "bishop under-promotion selected");
    kani::cover!(!hit && qf == m.from && qt == m.to, "right squares, wrong letter");
    kani::cover!(hit && castle_side_of(&p, m) == 2, "castling selected by the king's two-square move");
}

#[cfg_attr(kani, kani::proof)]
#[cfg_attr(replay, test)]
fn reach_witness() {
    let bb = any_bb();
    let p = any_pos_around(bb, true);
    kani::assume(legal_position(&p));
    let m = any_mv();
    kani::assume(fide_pseudo(&p, m));
    let s = to_state(&p);
    let mv = build_move(&p, m);
    let got = State::by_performing_move(&s, &mv).unwrap();
    assert!(same_pos(&from_state(&got), &p), "reach witness");
}

// ---- C02.c, resolver: `State::by_performing_moves` on top of *any* legal-move list -------------------
//
// The real legal move generator cannot be executed symbolically as a whole (DESIGN §4.1 C01.c), so it is
// replaced here by an adversarial stand-in that returns an arbitrary list of zero, one or two pseudo-legal
// moves of the position (with their real successors). What is decided is the resolver's own logic for
// every such list: exactly one match -> that very move is applied; none -> rejected as unknown;
// several -> rejected as ambiguous; the input position is never changed. In native replay no stub is
// active: the expectation is recomputed from the real generator's list.

static mut STUB_MV: [Mv; 2] = [Mv { from: 0, to: 0, promo: 0 }; 2];

fn adversarial<const N: usize>(state: &State) -> MoveSet {
    let p = from_state(state);
    let mut v: Vec<MoveResult> = Vec::with_capacity(2);
    let mut i = 0;
    while i < N {
        let m = any_mv();
        // legal moves only: the real generator then lists them too, so a counterexample replays natively
        kani::assume(legal_ref(&p, m));
        if i == 1 {
            // the second move shares the squares of the first (the realistic source of ambiguity: the four
            // promotions of one pawn step); keeps the two-move query within memory
            let first = unsafe { STUB_MV[0] };
            kani::assume(m.from == first.from && m.to == first.to && m.promo != first.promo);
        }
        let mv = build_move(&p, m);
        let succ = State::by_performing_move(state, &mv).unwrap();
        v.push(MoveResult(mv, succ));
        unsafe {
            STUB_MV[i] = m;
        }
        i += 1;
    }
    MoveSet::new(v)
}

pub fn legal_moves_adversarial_0(state: &State) -> MoveSet {
    adversarial::<0>(state)
}

pub fn legal_moves_adversarial_1(state: &State) -> MoveSet {
    adversarial::<1>(state)
}

pub fn legal_moves_adversarial_2(state: &State) -> MoveSet {
    adversarial::<2>(state)
}

/// What the coordinate resolver is specified to match (decided for `MoveQuery::test` in `coordinate_query`);
/// queries carry a promotion letter only for moves onto the last rank (the property's quantifier).
fn spec_match(_p: &Pos, m: Mv, qf: u8, qt: u8, ql: u8) -> bool {
    qf == m.from && qt == m.to && (ql == 0 || ql == m.promo)
}

fn resolver<const N: usize>() {
    let bb = any_bb();
    let wtm: bool = kani::any();
    let p = any_pos_around(bb, wtm);
    kani::assume(legal_position(&p));
    let qf: u8 = kani::any();
    let qt: u8 = kani::any();
    let ql: u8 = kani::any();
    kani::assume(qf < 64 && qt < 64 && (ql == 0 || (ql >= 2 && ql <= 5)));
    // a promotion letter is only attached to a pawn reaching the last rank
    kani::assume(ql == 0 || (p.kind_at(p.us(), qf) == 1 && (qt / 8 == 0 || qt / 8 == 7)));
    print_pos("c02 resolver", &p);
    println!("CASE {{\"harness\":\"c02 resolver\",\"qfrom\":{},\"qto\":{},\"qletter\":{}}}", qf, qt, ql);
    let s = to_state(&p);
    let mut q = MoveQuery::by_moving_from_to(sq(qf), sq(qt));
    if ql != 0 {
        q.set_promotion(piece_of(ql));
    }
    let got = State::by_performing_moves(&s, &[q]);
    // the list the resolver saw
    let mut matches = 0usize;
    let mut hit = Mv { from: 0, to: 0, promo: 0 };
    #[cfg(kani)]
    {
        let list = unsafe { STUB_MV };
        let mut i = 0;
        while i < N {
            if spec_match(&p, list[i], qf, qt, ql) {
                matches += 1;
                hit = list[i];
            }
            i += 1;
        }
    }
    #[cfg(not(kani))]
    {
        for r in MoveGenerator::compute_legal_moves(&s).moves() {
            let m = mv_of(&r.0);
            if spec_match(&p, m, qf, qt, ql) {
                matches += 1;
                hit = m;
            }
        }
    }
    match got {
        Ok(ref ns) => {
            assert!(matches == 1, "a move is applied only when the coordinates select exactly one move of the list");
            assert!(same_pos(&from_state(ns), &apply_ref(&p, hit)), "the applied move is the selected one");
        }
        Err(MovePerformError::UnknownMove) => assert!(matches == 0, "coordinates are rejected as unknown only when nothing matches"),
        Err(MovePerformError::AmbiguousMove) => assert!(matches >= 2, "coordinates are rejected as ambiguous only when several moves match"),
        Err(_) => assert!(false, "no other error for coordinate selection"),
    }
    assert!(same_pos(&from_state(&s), &p), "the position handed in is unchanged");
    kani::cover!(matches == N, "every listed move matches the coordinates");
}

#[cfg_attr(kani, kani::proof)]
#[cfg_attr(kani, kani::stub(weechess_core::MoveGenerator::compute_legal_moves, legal_moves_adversarial_0))]
#[cfg_attr(replay, test)]
fn resolver_on_empty_list() {
    resolver::<0>();
}

#[cfg_attr(kani, kani::proof)]
#[cfg_attr(kani, kani::stub(weechess_core::MoveGenerator::compute_legal_moves, legal_moves_adversarial_1))]
#[cfg_attr(replay, test)]
fn resolver_on_one_move() {
    resolver::<1>();
}

#[cfg_attr(kani, kani::proof)]
#[cfg_attr(kani, kani::stub(weechess_core::MoveGenerator::compute_legal_moves, legal_moves_adversarial_2))]
#[cfg_attr(replay, test)]
fn resolver_on_two_moves() {
    resolver::<2>();
}
