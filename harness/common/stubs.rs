//! Stand-ins used with `#[kani::stub]` (DESIGN §3.2). Each is discharged by another check and is never
//! active in the harness that discharges it; none is active in native replay.
//!   lookups -> geometry            discharged by C09
//!   Board::colored_attacks         discharged by C10 (c10::attacks_* at the bound used)
//!   Board::piece_at                discharged by c10::lemma_piece_at (no bound)
//!   Vec::push (no reallocation)    Vec's documented behaviour below capacity; asserts len < capacity

use crate::geo::*;
use crate::sym::*;
use std::alloc::Allocator;
use weechess_core::*;

pub fn rook_attacks(square: Square, occupancy: BitBoard) -> BitBoard {
    BitBoard::new(geo_rook(sq_no(square), occupancy.into()))
}

pub fn bishop_attacks(square: Square, occupancy: BitBoard) -> BitBoard {
    BitBoard::new(geo_bishop(sq_no(square), occupancy.into()))
}

pub fn queen_attacks(square: Square, occupancy: BitBoard) -> BitBoard {
    BitBoard::new(geo_queen(sq_no(square), occupancy.into()))
}

pub fn knight_attacks(square: Square) -> BitBoard {
    BitBoard::new(geo_knight(sq_no(square)))
}

pub fn king_attacks(square: Square) -> BitBoard {
    BitBoard::new(geo_king(sq_no(square)))
}

pub fn pawn_attacks(square: Square, color: Color) -> BitBoard {
    BitBoard::new(geo_pawn(sq_no(square), color == Color::White))
}

/// Set-wise attack map: union of the attack sets of all men of `color`, minus squares it occupies.
pub fn attack_set(bb: &[[u64; 6]; 2], c: usize) -> u64 {
    let occ = crate::rules::occ_of(bb, 0) | crate::rules::occ_of(bb, 1);
    let m = &bb[c];
    let all = geo_pawn_set(m[0], c == 0)
        | geo_knight_set(m[1])
        | geo_bishop_set(m[2] | m[4], occ)
        | geo_rook_set(m[3] | m[4], occ)
        | geo_king_set(m[5]);
    all & !crate::rules::occ_of(bb, c)
}

pub fn colored_attacks(board: &Board, color: Color) -> BitBoard {
    let bb = board_bb(board);
    BitBoard::new(attack_set(&bb, if color == Color::White { 0 } else { 1 }))
}

pub fn piece_at(board: &Board, square: Square) -> Option<PieceIndex> {
    let bb = board_bb(board);
    let s = sq_no(square);
    let w = crate::rules::kind_on(&bb, 0, s);
    if w != 0 {
        return Some(pi(0, w));
    }
    let b = crate::rules::kind_on(&bb, 1, s);
    if b != 0 {
        return Some(pi(1, b));
    }
    None
}

/// `Vec::push` without the growth path: the buffers of the move generator are created with capacity
/// 128; a family that could exceed it fails this assertion (reported, never silently truncated).
pub fn push_noalloc<T, A: Allocator>(v: &mut Vec<T, A>, value: T) {
    let len = v.len();
    assert!(len < v.capacity(), "stub Vec::push: capacity exceeded (family too large for the buffer)");
    unsafe {
        std::ptr::write(v.as_mut_ptr().add(len), value);
        v.set_len(len + 1);
    }
}
