//! C08 — position hash depends on, and separates, everything rule-relevant (DESIGN §4.4).

use crate::geo::*;
use crate::rules::*;
use crate::sym::*;
use weechess_core::*;

#[cfg(replay)]
use crate::kani;

/// Arbitrary key material: every call returns a fresh symbolic value, which subsumes every seed of
/// every generator (C08.a).
struct AnyRng;

impl rand::RngCore for AnyRng {
    fn next_u32(&mut self) -> u32 {
        kani::any()
    }
    fn next_u64(&mut self) -> u64 {
        kani::any()
    }
    fn fill_bytes(&mut self, dest: &mut [u8]) {
        let _ = dest;
    }
    fn try_fill_bytes(&mut self, dest: &mut [u8]) -> Result<(), rand::Error> {
        let _ = dest;
        Ok(())
    }
}

/// splitmix64: concrete, cheap under constant propagation (C08.b; ChaCha8 is not).
struct SplitMix(u64);

impl rand::RngCore for SplitMix {
    fn next_u32(&mut self) -> u32 {
        (self.next_u64() >> 32) as u32
    }
    fn next_u64(&mut self) -> u64 {
        self.0 = self.0.wrapping_add(0x9e37_79b9_7f4a_7c15);
        let mut z = self.0;
        z = (z ^ (z >> 30)).wrapping_mul(0xbf58_476d_1ce4_e5b9);
        z = (z ^ (z >> 27)).wrapping_mul(0x94d0_49bb_1331_11eb);
        z ^ (z >> 31)
    }
    fn fill_bytes(&mut self, dest: &mut [u8]) {
        let _ = dest;
    }
    fn try_fill_bytes(&mut self, dest: &mut [u8]) -> Result<(), rand::Error> {
        let _ = dest;
        Ok(())
    }
}

const fn parse_seed(s: Option<&str>) -> u64 {
    match s {
        None => 0,
        Some(s) => {
            let b = s.as_bytes();
            let mut i = 0;
            let mut v: u64 = 0;
            while i < b.len() {
                if b[i] >= b'0' && b[i] <= b'9' {
                    v = v.wrapping_mul(10).wrapping_add((b[i] - b'0') as u64);
                }
                i += 1;
            }
            v
        }
    }
}

/// Seed of the concrete key table; the driver exports VERIF_SEED to the build (and to the replay build).
pub const SEED: u64 = parse_seed(option_env!("VERIF_SEED"));

fn seeded_hasher(salt: u64) -> ZobristHasher {
    ZobristHasher::with(&mut SplitMix(SEED.wrapping_mul(0x2545_f491_4f6c_dd1d).wrapping_add(salt)))
}

fn bounded_pos(u: u32) -> Pos {
    let bb = any_bb();
    bound_per_kind(&bb, 0, u);
    bound_per_kind(&bb, 1, u);
    let wtm: bool = kani::any();
    any_pos_around(bb, wtm)
}

// ---- C08.a equality, all key tables -------------------------------------------------------------

proof! {
    fn equal_positions_hash_equal() {
        let hasher = ZobristHasher::with(&mut AnyRng);
        let p = bounded_pos(2);
        let mut q = p;
        q.half = kani::any::<u32>() as u64;
        q.full = kani::any::<u32>() as u64;
        print_pos("c08 equal_positions.p", &p);
        print_pos("c08 equal_positions.q", &q);
        let s1 = to_state(&p);
        let s2 = to_state(&q);
        let h1 = hasher.hash(&s1);
        assert!(h1 == hasher.hash(&s2), "same placement, side, rights and ep target hash equal whatever the move counters");
        assert!(h1 == hasher.hash(&s1.clone()), "a clone hashes like its source");
        assert!(h1 == hasher.hash(&s1), "hashing is repeatable");
        kani::cover!(p.half != q.half && p.full != q.full, "counters differ");
        kani::cover!(p.ep != NO_SQ && p.rights[1], "ep target and a right present");
    }
}

// Two move orders reaching the same position hash equal: white knight A, black king, white knight B
// versus B, king, A (real successor function, arbitrary key table).
proof! {
    fn transposition_hashes_equal() {
        let hasher = ZobristHasher::with(&mut AnyRng);
        let sqs: [u8; 8] = kani::any();
        // wk, bk, knight a from/to, knight b from/to, black king destination
        let (wk, bk, af, at, bf, bt, kt) = (sqs[0], sqs[1], sqs[2], sqs[3], sqs[4], sqs[5], sqs[6]);
        kani::assume(wk < 64 && bk < 64 && af < 64 && at < 64 && bf < 64 && bt < 64 && kt < 64);
        let all = [wk, bk, af, at, bf, bt, kt];
        // all seven squares distinct
        let mut seen = 0u64;
        let mut distinct = true;
        let mut i = 0;
        while i < 7 {
            distinct = distinct && seen & bit(all[i]) == 0;
            seen |= bit(all[i]);
            i += 1;
        }
        kani::assume(distinct);
        kani::assume(geo_knight(af) & bit(at) != 0 && geo_knight(bf) & bit(bt) != 0 && geo_king(bk) & bit(kt) != 0);
        let mut bb = [[0u64; 6]; 2];
        bb[0][K] = bit(wk);
        bb[1][K] = bit(bk);
        bb[0][N] = bit(af) | bit(bf);
        let p = Pos { bb, wtm: true, rights: [false; 4], ep: NO_SQ, half: kani::any::<u32>() as u64, full: kani::any::<u32>() as u64 };
        print_pos("c08 transposition", &p);
        println!("CASE {{\"harness\":\"c08 transposition\",\"squares\":{:?}}}", all);
        let s = to_state(&p);
        let wn = pi(0, 2);
        let a = Move::by_moving(wn, sq(af), sq(at));
        let b = Move::by_moving(wn, sq(bf), sq(bt));
        let k = Move::by_moving(pi(1, 6), sq(bk), sq(kt));
        let via_ab = State::by_performing_move(&State::by_performing_move(&State::by_performing_move(&s, &a).unwrap(), &k).unwrap(), &b).unwrap();
        let via_ba = State::by_performing_move(&State::by_performing_move(&State::by_performing_move(&s, &b).unwrap(), &k).unwrap(), &a).unwrap();
        assert!(from_state(&via_ab) == from_state(&via_ba), "both orders reach the same position");
        assert!(hasher.hash(&via_ab) == hasher.hash(&via_ba), "transposing move orders hash equal");
        assert!(hasher.hash(&via_ab) != hasher.hash(&s) || true, "hashing the root does not panic");
    }
}

// ---- C08.b separation under seeded concrete keys -------------------------------------------------

fn separation(class: u8, tag: &str) {
    let hasher = seeded_hasher(0);
    let p = bounded_pos(2);
    kani::assume(legal_position(&p));
    let mut q = p;
    match class {
        0 => {
            // side to move (keep it a legal position: nobody in check, no ep target, which is side-specific)
            kani::assume(p.ep == NO_SQ);
            q.wtm = !p.wtm;
            kani::assume(legal_position(&q));
        }
        1 => {
            // exactly one castling right differs (king and rook at home in both)
            let i: usize = kani::any();
            kani::assume(i < 4);
            kani::assume(p.rights[i]);
            q.rights[i] = false;
        }
        2 => {
            // an en-passant capture is available in p and not in q (same placement)
            kani::assume(p.ep != NO_SQ);
            let us = p.us();
            kani::assume(geo_pawn(p.ep, !p.wtm) & p.bb[us][P] != 0); // a pawn of the side to move attacks the target
            q.ep = NO_SQ;
        }
        _ => {
            // placement differs by one move's worth of incidences (man moved, capture, castle, promotion, ep)
            let m = any_mv();
            kani::assume(fide_pseudo(&p, m));
            print_mv(tag, m);
            let n = apply_ref(&p, m);
            q.bb = n.bb;
            kani::assume(structure_ok(&q));
            // keep rights / ep consistent with the new placement so that q is a position, not garbage
            kani::assume(rights_ok(&q) && ep_ok(&q));
        }
    }
    print_pos(tag, &p);
    print_pos(tag, &q);
    println!("CASE {{\"harness\":\"{}\",\"seed\":{}}}", tag, SEED);
    let h1 = hasher.hash(&to_state(&p));
    let h2 = hasher.hash(&to_state(&q));
    if h1 == h2 {
        // a 2^-64 coincidence among at most four keys is told apart from a deterministic omission by a
        // second, independent key table
        let other = seeded_hasher(0x5851_f42d_4c95_7f2d);
        assert!(other.hash(&to_state(&p)) != other.hash(&to_state(&q)), "positions that differ in a rule-relevant component hash differently");
    }
    kani::cover!(h1 != h2 || true, "pair constructed");
}

proof! {
    fn separates_side_to_move() {
        separation(0, "c08 separates_side_to_move");
    }
}

proof! {
    fn separates_castling_rights() {
        separation(1, "c08 separates_castling_rights");
    }
}

proof! {
    fn separates_en_passant_availability() {
        separation(2, "c08 separates_en_passant_availability");
    }
}

proof! {
    fn separates_placement() {
        separation(3, "c08 separates_placement");
    }
}

proof! {
    fn reach_witness() {
        let hasher = seeded_hasher(0);
        let p = bounded_pos(1);
        assert!(hasher.hash(&to_state(&p)) == 0, "reach witness");
    }
}
