//! Native self-test of the *oracle* (harness/common/rules.rs, sym.rs, stubs.rs) against the repository's
//! real move generator on concrete positions: perft-style walks from a handful of FENs. This validates
//! the reference the solver-based checks compare against (it is not evidence for any property); run by
//! `./check setup` with `--cfg replay` so that the shim provides `kani`.

use crate::geo::*;
use crate::rules::*;
use crate::sym::*;
use weechess_core::notation::{try_from_notation, Fen};
use weechess_core::*;

const FENS: &[(&str, usize)] = &[
    ("rnbqkbnr/pppppppp/8/8/8/8/PPPPPPPP/RNBQKBNR w KQkq - 0 1", 3),
    ("r3k2r/p1ppqpb1/bn2pnp1/3PN3/1p2P3/2N2Q1p/PPPBBPPP/R3K2R w KQkq - 0 1", 2),
    ("8/2p5/3p4/KP5r/1R3p1k/8/4P1P1/8 w - - 0 1", 3),
    ("r3k2r/Pppp1ppp/1b3nbN/nP6/BBP1P3/q4N2/Pp1P2PP/R2Q1RK1 w kq - 0 1", 2),
    ("rnbq1k1r/pp1Pbppp/2p5/8/2B5/8/PPP1NnPP/RNBQK2R w KQ - 1 8", 2),
    ("r4rk1/1pp1qppp/p1np1n2/2b1p1B1/2B1P1b1/P1NP1N2/1PP1QPPP/R4RK1 w - - 0 10", 2),
    ("8/8/8/8/k2Pp3/8/8/4K3 b - d3 0 1", 3),
    ("4k3/8/8/8/8/8/8/R3K2R w KQ - 0 1", 3),
    ("r3k2r/8/8/8/8/8/8/4K3 b kq - 0 1", 3),
    ("8/P6k/8/8/8/8/p6K/1N6 w - - 0 1", 3),
    ("8/8/8/5K1k/8/8/7R/8 b - - 0 1", 2),
];

fn walk(s: &State, depth: usize, nodes: &mut usize) {
    *nodes += 1;
    let p = from_state(s);
    assert!(legal_position(&p), "reached position violates the invariant: {}", fen_of(&p));
    assert!(from_state(&to_state(&p)) == p);
    // attack sets
    for c in 0..2 {
        let real: u64 = s.board().colored_attacks(color_of(c)).into();
        assert_eq!(real, crate::stubs::attack_set(&p.bb, c), "attack set {}", fen_of(&p));
        for t in 0..64u8 {
            let own = p.occ_c(c) & bit(t) != 0;
            assert_eq!(real & bit(t) != 0, attacked_ref(&p.bb, c, t) && !own, "attacked_ref {} sq {}", fen_of(&p), t);
            assert_eq!(s.board().piece_at(sq(t)), crate::stubs::piece_at(s.board(), sq(t)));
        }
    }
    // candidate list
    let mut cands: Vec<PseudoLegalMove> = Vec::with_capacity(128);
    MoveGenerator::compute_psuedo_legal_moves_into(s, &mut cands);
    let legal = MoveGenerator::compute_legal_moves(s);
    let mut n_cand = 0;
    let mut n_legal = 0;
    for from in 0..64u8 {
        for to in 0..64u8 {
            for promo in [0u8, 2, 3, 4, 5] {
                let m = Mv { from, to, promo };
                let gp = gen_pseudo(&p, m);
                let lg = legal_ref(&p, m);
                if lg {
                    assert!(gp, "legal but not candidate {} {:?}", fen_of(&p), m);
                }
                if gp {
                    n_cand += 1;
                    let mv = build_move(&p, m);
                    assert!(cands.iter().any(|c| **c == mv), "candidate missing from generator: {} {:?}", fen_of(&p), m);
                    assert_eq!(attrs_of(&mv), attrs_ref(&p, m));
                    assert_eq!(mv_of(&mv), m);
                    let succ = State::by_performing_move(s, &mv).unwrap();
                    assert_eq!(from_state(&succ), apply_ref(&p, m), "apply_ref {} {:?}", fen_of(&p), m);
                    assert_eq!(PseudoLegalMove::new(mv).try_as_legal_move(s).is_some(), lg, "legality {} {:?}", fen_of(&p), m);
                }
                if lg {
                    n_legal += 1;
                    let mv = build_move(&p, m);
                    assert!(legal.moves().iter().any(|r| r.0 == mv), "legal move missing: {} {:?}", fen_of(&p), m);
                }
            }
        }
    }
    assert_eq!(n_cand, cands.len(), "candidate count {}", fen_of(&p));
    assert_eq!(n_legal, legal.moves().len(), "legal count {}", fen_of(&p));
    // mirror is an involution that preserves legality counts
    let mp = mirror(&p);
    assert!(mirror(&mp) == p);
    assert_eq!(MoveGenerator::compute_legal_moves(&to_state(&mp)).moves().len(), n_legal, "mirror count {}", fen_of(&p));
    if depth > 0 {
        for MoveResult(_, next) in legal.moves() {
            walk(next, depth - 1, nodes);
        }
    }
}

#[test]
fn oracle_agrees_with_real_movegen_on_perft_walks() {
    let mut nodes = 0;
    for (fen, depth) in FENS {
        let s: State = try_from_notation::<_, Fen>(fen).unwrap();
        walk(&s, *depth - 1, &mut nodes);
    }
    println!("oracle self-test: {} positions", nodes);
    assert!(nodes > 1000);
}
