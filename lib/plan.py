"""Bound tables: which harness instances make up each property's quick / thorough tier (DESIGN §4)."""
from vdriver import Inst

PLAN = {}

# ---- C20 -------------------------------------------------------------------------------------------
_c20_fn = ("Move::by_moving", "Move::by_capturing", "Move::by_promoting", "Move::by_capture_promoting",
           "Move::by_en_passant", "Move::by_castling", "Move accessors (origin, destination, piece, color, capture, "
           "promotion, is_en_passant, is_double_pawn, castle_side, is_castle, resulting_piece, as_raw)",
           "moves::compact::{store,load,bit,set_bit}", "PieceIndex::new/piece/color", "<Move as PartialEq>::eq")
PLAN["C20"] = {
    "feature": "c20",
    "exhaustive": True,
    "bounds": "none: colour, kind 1..6, origin, destination < 64, capture kind 1..5, promotion kind 2..5, constructor "
              "class and castling side are all symbolic; serde layer: all 2^32 raw values",
    "outside": ["the CBOR byte codec (ciborium) is trusted to round-trip a u32, not decided (DESIGN §2 probe 18)"],
    "trusted": ["ciborium round-trips u32", "rustc / kani-compiler / CBMC"],
    "assumptions": ["en-passant constructor is only applied to pawns", "capture kinds are the five capturable kinds"],
    "insts": [
        Inst("c20::attrs_roundtrip", sub="C20 attributes", timeout=300, functions=_c20_fn, bounds="all constructor arguments symbolic"),
        Inst("c20::eq_iff_attrs", sub="C20 equality", timeout=300, functions=_c20_fn, bounds="two independent symbolic constructions"),
        Inst("c20::serde_serialize_is_raw_u32", sub="C20 serde", timeout=300,
             functions=("<Move as serde::Serialize>::serialize (derive)",), bounds="all constructor arguments symbolic"),
        Inst("c20::serde_deserialize_roundtrip", sub="C20 serde", timeout=300,
             functions=("<Move as serde::Deserialize>::deserialize (derive)",), bounds="all 2^32 raw values"),
        Inst("c20::reach_witness", sub="vacuity", timeout=300, expect="fail"),
    ],
}


def setup():
    return 0
