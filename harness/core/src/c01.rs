//! C01 — legal move generation is exactly the rules of chess (DESIGN §4.1).
//!  a. legality filter `PseudoLegalMove::try_as_legal_move` on arbitrary boards (opponent bounded per kind)
//!  b. candidate generator `compute_psuedo_legal_moves_into` on families (kinds and side concrete,
//!     squares / rights / en-passant target symbolic): sound, duplicate-free, complete
//!  glue: every legal move is a candidate (the generator's king-step pre-filter drops only illegal moves)
//! The six-line filter loop of `compute_legal_moves_into` and perft are outside the solver's claim.

use crate::geo::*;
use crate::rules::*;
use crate::sym::*;
use weechess_core::*;

#[cfg(replay)]
use crate::kani;

// ---- C01.a -----------------------------------------------------------------------------------------

/// class: 0 = N/B/R/Q, 1 = king incl. castling, 2 = pawn incl. ep / promotion
fn filter(wtm: bool, class: u8, u: u32, tag: &str) -> (Pos, Mv, bool) {
    let bb = any_bb();
    // the only population loop reached is the opponent's attack map in the successor
    bound_per_kind(&bb, if wtm { 1 } else { 0 }, u);
    let p = any_pos_around(bb, wtm);
    kani::assume(legal_position(&p));
    let m = any_mv();
    // any candidate the movement rules allow (a superset of what the generator emits today)
    kani::assume(fide_pseudo(&p, m));
    let k = p.kind_at(p.us(), m.from);
    match class {
        0 => kani::assume(k >= 2 && k <= 5),
        1 => kani::assume(k == 6),
        _ => kani::assume(k == 1),
    }
    print_pos(tag, &p);
    print_mv(tag, m);
    let s = to_state(&p);
    let mv = build_move(&p, m);
    let got = PseudoLegalMove::new(mv).try_as_legal_move(&s);
    let want = legal_ref(&p, m);
    assert!(got.is_some() == want, "a candidate is accepted iff the mover's king is not attacked afterwards");
    if let Some(MoveResult(rm, rs)) = got {
        assert!(rm == mv, "the accepted move is the candidate itself");
        assert!(same_pos(&from_state(&rs), &apply_ref(&p, m)), "the accepted move carries the correct successor position");
    }
    (p, m, want)
}

macro_rules! filter_harness {
    ($name:ident, $wtm:expr, $class:expr, $u:expr, $($cover:tt)*) => {
        proof_geo! {
            fn $name() {
                let (p, m, legal) = filter($wtm, $class, $u, concat!("c01 ", stringify!($name)));
                let in_check = attacked_ref(&p.bb, p.them(), p.king_sq(p.us()));
                let _ = (&p, &m, legal, in_check);
                cover_filter!(p, m, legal, in_check, $($cover)*);
            }
        }
    };
}

macro_rules! cover_filter {
    ($p:ident, $m:ident, $legal:ident, $chk:ident, pieces) => {
        kani::cover!(!$legal && !$chk, "pinned piece leaves the line");
        kani::cover!($legal && $chk && $p.kind_at($p.them(), $m.to) != 0, "check answered by capturing the checker");
        kani::cover!($legal && $chk && $p.kind_at($p.them(), $m.to) == 0, "check answered by interposing");
    };
    ($p:ident, $m:ident, $legal:ident, $chk:ident, king) => {
        kani::cover!(!$legal && $chk && castle_side_of(&$p, $m) == 0, "king step that stays on the checking ray is refused");
        kani::cover!($legal && castle_side_of(&$p, $m) == 2, "queen-side castling accepted");
        kani::cover!(!$legal && $p.kind_at($p.them(), $m.to) != 0, "capture of a defended man refused");
    };
    ($p:ident, $m:ident, $legal:ident, $chk:ident, pawn) => {
        kani::cover!(!$legal && is_ep_capture(&$p, $m) && !$chk, "en passant refused: both pawns leave the rank and uncover the king");
        kani::cover!($legal && is_ep_capture(&$p, $m) && $chk, "en passant removes the checking pawn");
        kani::cover!($legal && $m.promo == 2 && $p.kind_at($p.them(), $m.to) != 0, "capture-promotion to knight accepted");
    };
}

filter_harness!(filter_pieces_white_u2, true, 0, 2, pieces);
filter_harness!(filter_pieces_black_u2, false, 0, 2, pieces);
filter_harness!(filter_king_white_u2, true, 1, 2, king);
filter_harness!(filter_king_black_u2, false, 1, 2, king);
filter_harness!(filter_pawn_white_u2, true, 2, 2, pawn);
filter_harness!(filter_pawn_black_u2, false, 2, 2, pawn);
filter_harness!(filter_pieces_white_u3, true, 0, 3, pieces);
filter_harness!(filter_pieces_black_u3, false, 0, 3, pieces);
filter_harness!(filter_king_white_u3, true, 1, 3, king);
filter_harness!(filter_king_black_u3, false, 1, 3, king);
filter_harness!(filter_pawn_white_u3, true, 2, 3, pawn);
filter_harness!(filter_pawn_black_u3, false, 2, 3, pawn);

// glue lemma on the reference: the candidate contract never excludes a legal move (no repository code,
// no bound: arbitrary legal position, arbitrary coordinates)
proof! {
    fn lemma_legal_moves_are_candidates() {
        let bb = any_bb();
        let wtm: bool = kani::any();
        let p = any_pos_around(bb, wtm);
        kani::assume(legal_position(&p));
        let m = any_mv();
        print_pos("c01 lemma_legal_moves_are_candidates", &p);
        print_mv("c01 lemma_legal_moves_are_candidates", m);
        if legal_ref(&p, m) {
            assert!(gen_pseudo(&p, m), "every legal move satisfies the candidate contract");
        }
        kani::cover!(legal_ref(&p, m) && castle_side_of(&p, m) == 1, "legal king-side castling");
        kani::cover!(fide_pseudo(&p, m) && !gen_pseudo(&p, m), "a king step the candidate contract leaves out");
    }
}

// ---- C01.b -----------------------------------------------------------------------------------------

fn find_in_list<const MAX: usize>(list: &Vec<PseudoLegalMove>, target: Move) -> bool {
    let mut found = false;
    let mut i = 0;
    while i < MAX {
        if i < list.len() && *list[i] == target {
            found = true;
        }
        i += 1;
    }
    found
}

/// MODE 0: soundness, attributes, no duplicates. MODE 1: completeness. (Two queries per family keep each
/// SAT instance within memory.)
fn generator<const MAX: usize, const MODE: u8>(wtm: bool, men: &[(usize, u8)], with_rights: bool, with_ep: bool, tag: &str) -> (Pos, usize) {
    let p = family(wtm, men, with_rights, with_ep, tag);
    generator_on::<MAX, MODE>(p, tag)
}

fn generator_on<const MAX: usize, const MODE: u8>(p: Pos, tag: &str) -> (Pos, usize) {
    let s = to_state(&p);
    let mut list: Vec<PseudoLegalMove> = Vec::with_capacity(128);
    MoveGenerator::compute_psuedo_legal_moves_into(&s, &mut list);
    let len = list.len();
    assert!(len <= MAX, "family bound on the number of candidates");
    if MODE == 0 {
        // soundness: every listed move is a candidate by the rules and carries exactly the right attributes
        let i: usize = kani::any();
        if i < len {
            let m = *list[i];
            let d = mv_of(&m);
            println!("CASE {{\"harness\":\"{}\",\"listed\":{},\"from\":{},\"to\":{},\"promo\":{},\"raw\":{}}}", tag, i, d.from, d.to, d.promo, m.as_raw());
            // (only the movement rules are demanded of a candidate: whether squares the opponent attacks are
            // weeded out here or by the legality filter is the implementation's business)
            assert!(fide_pseudo(&p, d), "every generated move obeys the movement rules of its piece");
            assert!(m == build_move(&p, d), "every generated move carries the right attributes (piece, colour, capture kind, promotion, ep flag, castle side, double step)");
            // no duplicates
            let j: usize = kani::any();
            if j < len && j != i {
                assert!(*list[j] != m, "no move is generated twice");
            }
        }
    } else {
        // completeness: every *legal* move is in the list
        let want = any_mv();
        print_mv(tag, want);
        if legal_ref(&p, want) {
            assert!(find_in_list::<MAX>(&list, build_move(&p, want)), "every legal move is generated");
        }
    }
    (p, len)
}

macro_rules! gen_harness {
    ($sound:ident, $complete:ident, $max:expr, $wtm:expr, $men:expr, $rights:expr, $ep:expr, [$($cov:expr, $msg:expr);*]) => {
        proof_geo! {
            #[cfg_attr(kani, kani::stub(std::vec::Vec::push, crate::stubs::push_noalloc))]
            fn $sound() {
                let (p, len) = generator::<$max, 0>($wtm, $men, $rights, $ep, concat!("c01 ", stringify!($sound)));
                let _ = (&p, len);
                $( kani::cover!(($cov)(&p, len), $msg); )*
            }
        }
        proof_geo! {
            #[cfg_attr(kani, kani::stub(std::vec::Vec::push, crate::stubs::push_noalloc))]
            fn $complete() {
                let (p, len) = generator::<$max, 1>($wtm, $men, $rights, $ep, concat!("c01 ", stringify!($complete)));
                let _ = (&p, len);
                $( kani::cover!(($cov)(&p, len), $msg); )*
            }
        }
    };
}

type Cv = fn(&Pos, usize) -> bool;

// bare kings
gen_harness!(gen_kk_white_sound, gen_kk_white_complete, 8, true, &[], false, false, [(|_p: &Pos, n: usize| n == 8), "eight king steps"; (|_p: &Pos, n: usize| n == 2), "cornered king next to the opposing king's zone"]);
gen_harness!(gen_kk_black_sound, gen_kk_black_complete, 8, false, &[], false, false, [(|_p: &Pos, n: usize| n == 8), "eight king steps"]);
// one own knight
gen_harness!(gen_kn_k_white_sound, gen_kn_k_white_complete, 16, true, &[(0, 2)], false, false, [(|_p: &Pos, n: usize| n == 16), "sixteen candidates"]);
gen_harness!(gen_kn_k_black_sound, gen_kn_k_black_complete, 16, false, &[(1, 2)], false, false, [(|_p: &Pos, n: usize| n == 16), "sixteen candidates"]);
// own knight, enemy knight (captures, attacked squares around the king)
gen_harness!(gen_kn_kn_white_sound, gen_kn_kn_white_complete, 16, true, &[(0, 2), (1, 2)], false, false, [(|p: &Pos, _n: usize| geo_knight(p.bb[0][N].trailing_zeros() as u8) & p.bb[1][N] != 0), "knight can capture knight"]);
// two own men of one kind (per-kind loops run twice; doubled pawns block each other)
gen_harness!(gen_knn_k_white_sound, gen_knn_k_white_complete, 24, true, &[(0, 2), (0, 2)], false, false, [(|_p: &Pos, n: usize| n == 24), "two knights with eight moves each"]);
gen_harness!(gen_kpp_k_black_sound, gen_kpp_k_black_complete, 16, false, &[(1, 1), (1, 1)], false, false,
    [(|p: &Pos, _n: usize| (p.bb[1][P] >> 8) & p.bb[1][P] != 0), "doubled pawns: the rear pawn is blocked";
     (|p: &Pos, _n: usize| p.bb[1][P] & RANK_2 != 0 && p.bb[1][P] & RANK_7 != 0), "one pawn about to promote, one on its home rank"]);
// own rook / bishop / queen
gen_harness!(gen_kr_k_white_sound, gen_kr_k_white_complete, 22, true, &[(0, 4)], false, false, [(|_p: &Pos, n: usize| n == 22), "rook with fourteen moves, king with eight"]);
gen_harness!(gen_kr_k_black_sound, gen_kr_k_black_complete, 22, false, &[(1, 4)], false, false, [(|_p: &Pos, n: usize| n == 22), "rook with fourteen moves, king with eight"]);
gen_harness!(gen_kb_k_white_sound, gen_kb_k_white_complete, 21, true, &[(0, 3)], false, false, [(|_p: &Pos, n: usize| n == 21), "bishop with thirteen moves, king with eight"]);
gen_harness!(gen_kb_k_black_sound, gen_kb_k_black_complete, 21, false, &[(1, 3)], false, false, [(|_p: &Pos, n: usize| n == 21), "bishop with thirteen moves, king with eight"]);
// pawn families: own pawn + enemy knight (push, double step, capture, promotion, capture-promotion)
gen_harness!(gen_kp_kn_white_sound, gen_kp_kn_white_complete, 16, true, &[(0, 1), (1, 2)], false, false,
    [(|p: &Pos, _n: usize| p.bb[0][P] & RANK_7 != 0 && (geo_pawn(p.bb[0][P].trailing_zeros() as u8, true) & p.bb[1][N]) != 0), "capture-promotion available";
     (|p: &Pos, _n: usize| p.bb[0][P] & RANK_2 != 0 && p.occ() & (p.bb[0][P] << 8 | p.bb[0][P] << 16) == 0), "double step available"]);
gen_harness!(gen_kp_kn_black_sound, gen_kp_kn_black_complete, 16, false, &[(1, 1), (0, 2)], false, false,
    [(|p: &Pos, _n: usize| p.bb[1][P] & RANK_2 != 0 && (geo_pawn(p.bb[1][P].trailing_zeros() as u8, false) & p.bb[0][N]) != 0), "capture-promotion available";
     (|p: &Pos, _n: usize| p.bb[1][P] & RANK_7 != 0 && p.occ() & (p.bb[1][P] >> 8 | p.bb[1][P] >> 16) == 0), "double step available"]);
// own pawn + enemy pawn + en-passant target
gen_harness!(gen_kp_kp_ep_white_sound, gen_kp_kp_ep_white_complete, 12, true, &[(0, 1), (1, 1)], false, true,
    [(|p: &Pos, _n: usize| p.ep != NO_SQ && geo_pawn(p.ep, false) & p.bb[0][P] != 0), "en-passant capture available";
     (|p: &Pos, _n: usize| p.ep != NO_SQ && geo_pawn(p.ep, false) & p.bb[0][P] == 0), "target set but no pawn can take"]);
gen_harness!(gen_kp_kp_ep_black_sound, gen_kp_kp_ep_black_complete, 12, false, &[(1, 1), (0, 1)], false, true,
    [(|p: &Pos, _n: usize| p.ep != NO_SQ && geo_pawn(p.ep, true) & p.bb[1][P] != 0), "en-passant capture available"]);
// quick-tier pawn families: kings concrete on g1 / g8, pawn(s) and the opposing man on symbolic squares
macro_rules! pawn_q_harness {
    ($name:ident, $mode:expr, $wtm:expr, $men:expr, $ep:expr, $max:expr) => {
        proof_geo! {
            #[cfg_attr(kani, kani::stub(std::vec::Vec::push, crate::stubs::push_noalloc))]
            fn $name() {
                let p = family_kings_at($wtm, 6, 62, $men, $ep, concat!("c01 ", stringify!($name)));
                let (p, _len) = generator_on::<$max, $mode>(p, concat!("c01 ", stringify!($name)));
                let us = p.us();
                let pawn = p.bb[us][P];
                let fwd_free = if $wtm { p.occ() & (pawn << 8) == 0 } else { p.occ() & (pawn >> 8) == 0 };
                kani::cover!(pawn & (if $wtm { RANK_7 } else { RANK_2 }) != 0 && fwd_free, "promotion by pushing available");
                kani::cover!(pawn & (if $wtm { RANK_2 } else { RANK_7 }) != 0 && fwd_free, "pawn on its home rank with a free square in front");
                kani::cover!(geo_pawn(pawn.trailing_zeros() as u8, $wtm) & p.occ_c(p.them()) != 0, "pawn capture available");
            }
        }
    };
}

pawn_q_harness!(gen_q_kp_kn_white_sound, 0, true, &[(0, 1), (1, 2)], false, 16);
pawn_q_harness!(gen_q_kp_kn_white_complete, 1, true, &[(0, 1), (1, 2)], false, 16);
pawn_q_harness!(gen_q_kp_kn_black_sound, 0, false, &[(1, 1), (0, 2)], false, 16);
pawn_q_harness!(gen_q_kp_kn_black_complete, 1, false, &[(1, 1), (0, 2)], false, 16);
pawn_q_harness!(gen_q_kp_kp_ep_white_sound, 0, true, &[(0, 1), (1, 1)], true, 12);
pawn_q_harness!(gen_q_kp_kp_ep_white_complete, 1, true, &[(0, 1), (1, 1)], true, 12);
pawn_q_harness!(gen_q_kp_kp_ep_black_sound, 0, false, &[(1, 1), (0, 1)], true, 12);
pawn_q_harness!(gen_q_kp_kp_ep_black_complete, 1, false, &[(1, 1), (0, 1)], true, 12);

// own minor pieces and queen with the kings concrete (knight jumps, bishop and queen rays with a blocker / capture)
macro_rules! piece_q_harness {
    ($name:ident, $mode:expr, $wtm:expr, $men:expr, $max:expr, $full:expr) => {
        proof_geo! {
            #[cfg_attr(kani, kani::stub(std::vec::Vec::push, crate::stubs::push_noalloc))]
            fn $name() {
                let p = family_kings_at($wtm, 6, 62, $men, false, concat!("c01 ", stringify!($name)));
                let (_p, len) = generator_on::<$max, $mode>(p, concat!("c01 ", stringify!($name)));
                kani::cover!(len >= $full, "the pieces have (nearly) all their moves");
                kani::cover!(len < $full, "some moves are blocked or off the board");
            }
        }
    };
}

piece_q_harness!(gen_q_kn_kp_white_sound, 0, true, &[(0, 2), (1, 1)], 16, 12);
piece_q_harness!(gen_q_kn_kp_white_complete, 1, true, &[(0, 2), (1, 1)], 16, 12);
piece_q_harness!(gen_q_kn_kp_black_complete, 1, false, &[(1, 2), (0, 1)], 16, 12);
piece_q_harness!(gen_q_kb_kp_white_complete, 1, true, &[(0, 3), (1, 1)], 21, 16);
piece_q_harness!(gen_q_kb_kp_black_sound, 0, false, &[(1, 3), (0, 1)], 21, 16);
piece_q_harness!(gen_q_kq_kp_white_complete, 1, true, &[(0, 5), (1, 1)], 35, 28);
piece_q_harness!(gen_q_kq_kp_black_sound, 0, false, &[(1, 5), (0, 1)], 35, 28);

// added after the third round of seeded changes (two capture-promotions in one direction; an en-passant
// capture next to an ordinary capture on the other side): kings concrete, more pawns and targets
pawn_q_harness!(gen_q_kpp_knn_white_sound, 0, true, &[(0, 1), (0, 1), (1, 2), (1, 2)], false, 32);
pawn_q_harness!(gen_q_kpp_knn_white_complete, 1, true, &[(0, 1), (0, 1), (1, 2), (1, 2)], false, 32);
pawn_q_harness!(gen_q_kpp_knn_black_complete, 1, false, &[(1, 1), (1, 1), (0, 2), (0, 2)], false, 32);
pawn_q_harness!(gen_q_kp_kpn_ep_white_sound, 0, true, &[(0, 1), (1, 1), (1, 2)], true, 16);
pawn_q_harness!(gen_q_kp_kpn_ep_white_complete, 1, true, &[(0, 1), (1, 1), (1, 2)], true, 16);
pawn_q_harness!(gen_q_kp_kpn_ep_black_complete, 1, false, &[(1, 1), (0, 1), (0, 2)], true, 16);
pawn_q_harness!(gen_q_kpp_kp_ep_white_complete, 1, true, &[(0, 1), (0, 1), (1, 1)], true, 24);
pawn_q_harness!(gen_q_kpp_kp_ep_black_complete, 1, false, &[(1, 1), (1, 1), (0, 1)], true, 24);

// castling: king and both rooks at home with symbolic rights; the opposing king and one opposing rook on
// symbolic squares (attacks on e/f/g, e/d/c, b1/b8; blockers on the path)
macro_rules! castle_harness {
    ($name:ident, $mode:expr, $wtm:expr) => {
        castle_harness!($name, $mode, $wtm, &[4]);
    };
    ($name:ident, $mode:expr, $wtm:expr, $opp:expr) => {
        proof_geo! {
            #[cfg_attr(kani, kani::stub(std::vec::Vec::push, crate::stubs::push_noalloc))]
            fn $name() {
                let p = castle_family($wtm, $opp, concat!("c01 ", stringify!($name)));
                let (p, _len) = generator_on::<40, $mode>(p, concat!("c01 ", stringify!($name)));
                let (qs, ks, home, b_sq): (usize, usize, u8, u8) = if $wtm { (1, 0, 4, 1) } else { (3, 2, 60, 57) };
                kani::cover!(p.rights[qs] && gen_pseudo(&p, Mv { from: home, to: home - 2, promo: 0 }) && attacked_ref(&p.bb, p.them(), b_sq), "queen-side castling allowed while the b-file square is attacked");
                kani::cover!(p.rights[ks] && !gen_pseudo(&p, Mv { from: home, to: home + 2, promo: 0 }) && p.occ() & (bit(home + 1) | bit(home + 2)) == 0, "king-side castling refused through an attacked square");
                kani::cover!(p.rights[qs] && p.occ_c(p.them()) & bit(b_sq) != 0, "queen-side path blocked by an opposing man on the b-file only");
            }
        }
    };
}

castle_harness!(gen_castle_white_sound, 0, true);
castle_harness!(gen_castle_white_complete, 1, true);
castle_harness!(gen_castle_black_sound, 0, false);
castle_harness!(gen_castle_black_complete, 1, false);
// ... and with an opposing knight instead of the rook (it can sit on the path without attacking it)
castle_harness!(gen_castle_n_white_sound, 0, true, &[2]);
castle_harness!(gen_castle_n_white_complete, 1, true, &[2]);
castle_harness!(gen_castle_n_black_sound, 0, false, &[2]);
castle_harness!(gen_castle_n_black_complete, 1, false, &[2]);
// ... and with both (attacks on the path and a man standing on it in one query)
castle_harness!(gen_castle_rn_white_sound, 0, true, &[4, 2]);
castle_harness!(gen_castle_rn_black_sound, 0, false, &[4, 2]);

proof_geo! {
    #[cfg_attr(kani, kani::stub(std::vec::Vec::push, crate::stubs::push_noalloc))]
    fn reach_witness() {
        // kings on g1 / g8, one white knight on a symbolic square
        let p = family_kings_at(true, 6, 62, &[(0, 2)], false, "c01 reach");
        let s = to_state(&p);
        let mut list: Vec<PseudoLegalMove> = Vec::with_capacity(128);
        MoveGenerator::compute_psuedo_legal_moves_into(&s, &mut list);
        assert!(list.len() == 0, "reach witness");
    }
}
