//! C08 — position hash depends on, and separates, everything rule-relevant (DESIGN §4.4).
//! Since the repair of the hash (it now asks the pawn-attack table whether an en-passant capture is
//! available) the harnesses replace the table lookups by geometry like every other check (C09).

use crate::geo::*;
use crate::rules::*;
use crate::sym::*;
use weechess_core::*;

#[cfg(replay)]
use crate::kani;

/// Arbitrary key material: every call returns a fresh symbolic value, which subsumes every seed of
/// every generator (C08.a).
struct AnyRng;

impl rand::RngCore for AnyRng {
    fn next_u32(&mut self) -> u32 {
        kani::any()
    }
    fn next_u64(&mut self) -> u64 {
        kani::any()
    }
    fn fill_bytes(&mut self, dest: &mut [u8]) {
        let _ = dest;
    }
    fn try_fill_bytes(&mut self, dest: &mut [u8]) -> Result<(), rand::Error> {
        let _ = dest;
        Ok(())
    }
}

/// splitmix64: concrete, cheap under constant propagation (C08.b; ChaCha8 is not).
struct SplitMix(u64);

impl rand::RngCore for SplitMix {
    fn next_u32(&mut self) -> u32 {
        (self.next_u64() >> 32) as u32
    }
    fn next_u64(&mut self) -> u64 {
        self.0 = self.0.wrapping_add(0x9e37_79b9_7f4a_7c15);
        let mut z = self.0;
        z = (z ^ (z >> 30)).wrapping_mul(0xbf58_476d_1ce4_e5b9);
        z = (z ^ (z >> 27)).wrapping_mul(0x94d0_49bb_1331_11eb);
        z ^ (z >> 31)
    }
    fn fill_bytes(&mut self, dest: &mut [u8]) {
        let _ = dest;
    }
    fn try_fill_bytes(&mut self, dest: &mut [u8]) -> Result<(), rand::Error> {
        let _ = dest;
        Ok(())
    }
}

const fn parse_seed(s: Option<&str>) -> u64 {
    match s {
        None => 0,
        Some(s) => {
            let b = s.as_bytes();
            let mut i = 0;
            let mut v: u64 = 0;
            while i < b.len() {
                if b[i] >= b'0' && b[i] <= b'9' {
                    v = v.wrapping_mul(10).wrapping_add((b[i] - b'0') as u64);
                }
                i += 1;
            }
            v
        }
    }
}

/// Seed of the concrete key table; the driver exports VERIF_SEED to the build (and to the replay build).
pub const SEED: u64 = parse_seed(option_env!("VERIF_SEED"));

fn seeded_hasher(salt: u64) -> ZobristHasher {
    ZobristHasher::with(&mut SplitMix(SEED.wrapping_mul(0x2545_f491_4f6c_dd1d).wrapping_add(salt)))
}

// ---- C08.a equality -------------------------------------------------------------------------------

proof_geo! {
    fn equal_positions_hash_equal() {
        // seeded key table (an arbitrary symbolic table does not fit: 1026 symbolic keys behind symbolic
        // indices exhaust 12 GB in the propositional reduction); other tables by varying VERIF_SEED
        let hasher = seeded_hasher(0);
        let wtm: bool = kani::any();
        // K+R vs k+p with symbolic rights and ep target
        let p = family(wtm, &[(0, 4), (1, 1)], true, true, "c08 equal_positions.p");
        let mut q = p;
        q.half = kani::any::<u32>() as u64;
        q.full = kani::any::<u32>() as u64;
        print_pos("c08 equal_positions.q", &q);
        let s1 = to_state(&p);
        let s2 = to_state(&q);
        assert!(hasher.hash(&s1) == hasher.hash(&s2), "same placement, side, rights and ep target hash equal whatever the move counters");
        kani::cover!(p.half != q.half && p.full != q.full, "counters differ");
        kani::cover!(p.ep != NO_SQ, "ep target present");
        kani::cover!(p.rights[0], "a castling right present");
    }
}

// A position reached by play and the same position set up from scratch (with other move counters)
// hash equal: real successor function twice (white knight move, black king step), seeded key table —
// the all-tables claim is carried by `equal_positions_hash_equal`.
proof_geo! {
    fn reached_and_constructed_hash_equal() {
        let hasher = seeded_hasher(0);
        let sqs: [u8; 5] = kani::any();
        // wk, bk, knight from/to, black king destination
        let (wk, bk, nf, nt, kt) = (sqs[0], sqs[1], sqs[2], sqs[3], sqs[4]);
        kani::assume(wk < 64 && bk < 64 && nf < 64 && nt < 64 && kt < 64);
        let all = [wk, bk, nf, nt, kt];
        let mut seen = 0u64;
        let mut distinct = true;
        let mut i = 0;
        while i < 5 {
            distinct = distinct && seen & bit(all[i]) == 0;
            seen |= bit(all[i]);
            i += 1;
        }
        kani::assume(distinct);
        kani::assume(geo_knight(nf) & bit(nt) != 0 && geo_king(bk) & bit(kt) != 0);
        let mut bb = [[0u64; 6]; 2];
        bb[0][K] = bit(wk);
        bb[1][K] = bit(bk);
        bb[0][N] = bit(nf);
        let p = Pos { bb, wtm: true, rights: [false; 4], ep: NO_SQ, half: kani::any::<u32>() as u64, full: kani::any::<u32>() as u64 };
        print_pos("c08 reached_and_constructed", &p);
        println!("CASE {{\"harness\":\"c08 reached_and_constructed\",\"squares\":{:?}}}", all);
        let s = to_state(&p);
        let a = Move::by_moving(pi(0, 2), sq(nf), sq(nt));
        let k = Move::by_moving(pi(1, 6), sq(bk), sq(kt));
        let reached = State::by_performing_move(&State::by_performing_move(&s, &a).unwrap(), &k).unwrap();
        let mut fb = [[0u64; 6]; 2];
        fb[0][K] = bit(wk);
        fb[1][K] = bit(kt);
        fb[0][N] = bit(nt);
        let built = Pos { bb: fb, wtm: true, rights: [false; 4], ep: NO_SQ, half: kani::any::<u32>() as u64, full: kani::any::<u32>() as u64 };
        let r = from_state(&reached);
        assert!(same_bb(&r.bb, &built.bb) && r.wtm == built.wtm && r.ep == built.ep, "play reaches the position that was set up");
        assert!(hasher.hash(&reached) == hasher.hash(&to_state(&built)), "a position hashes the same however it was reached and whatever its counters are");
        kani::cover!(r.half != built.half, "counters differ");
    }
}

// ---- C08.b separation under seeded concrete keys -------------------------------------------------

fn must_differ(tag: &str, p: &Pos, q: &Pos) {
    print_pos(tag, p);
    print_pos(tag, q);
    println!("CASE {{\"harness\":\"{}\",\"seed\":{}}}", tag, SEED);
    let hasher = seeded_hasher(0);
    let h1 = hasher.hash(&to_state(p));
    let h2 = hasher.hash(&to_state(q));
    #[cfg(kani)]
    assert!(h1 != h2, "positions that differ in a rule-relevant component hash differently");
    // natively, a 2^-64 coincidence among a handful of keys is told apart from a deterministic omission
    // by a second, independent key table
    #[cfg(not(kani))]
    if h1 == h2 {
        let other = seeded_hasher(0x5851_f42d_4c95_7f2d);
        assert!(other.hash(&to_state(p)) != other.hash(&to_state(q)), "positions that differ in a rule-relevant component hash differently");
    }
}

proof_geo! {
    fn separates_side_to_move() {
        let p = family(true, &[(0, 5), (1, 2), (1, 1)], false, false, "c08 separates_side_to_move");
        let mut q = p;
        q.wtm = false;
        kani::assume(legal_position(&q));
        must_differ("c08 separates_side_to_move", &p, &q);
    }
}

proof_geo! {
    fn separates_castling_rights() {
        let wtm: bool = kani::any();
        let p = family(wtm, &[(0, 4), (0, 4), (1, 4), (1, 4)], true, false, "c08 separates_castling_rights");
        let i: usize = kani::any();
        kani::assume(i < 4 && p.rights[i]);
        let mut q = p;
        q.rights[i] = false;
        must_differ("c08 separates_castling_rights", &p, &q);
        kani::cover!(i == 3 && !wtm, "black queen-side right");
    }
}

proof_geo! {
    fn separates_en_passant_availability() {
        let wtm: bool = kani::any();
        let p = family(wtm, &[(0, 1), (1, 1), (0, 2)], false, true, "c08 separates_en_passant_availability");
        kani::assume(p.ep != NO_SQ);
        // a pawn of the side to move attacks the target: the capture is available in p and not in q
        kani::assume(geo_pawn(p.ep, !p.wtm) & p.bb[p.us()][P] != 0);
        let mut q = p;
        q.ep = NO_SQ;
        must_differ("c08 separates_en_passant_availability", &p, &q);
        kani::cover!(!wtm, "black can capture en passant");
    }
}

fn placement(wtm: bool, men: &[(usize, u8)], tag: &str) {
    let p = family(wtm, men, false, false, tag);
    let m = any_mv();
    kani::assume(fide_pseudo(&p, m));
    print_mv(tag, m);
    let n = apply_ref(&p, m);
    let mut q = p;
    q.bb = n.bb;
    must_differ(tag, &p, &q);
    kani::cover!(m.promo != 0 && p.kind_at(p.them(), m.to) != 0, "capture-promotion: four incidences");
    kani::cover!(p.kind_at(p.us(), m.from) == 6, "king move");
}

proof_geo! {
    fn separates_placement_white() {
        placement(true, &[(0, 1), (0, 2), (1, 4)], "c08 separates_placement_white");
    }
}

proof_geo! {
    fn separates_placement_black() {
        placement(false, &[(1, 1), (1, 3), (0, 5)], "c08 separates_placement_black");
    }
}

proof_geo! {
    fn reach_witness() {
        let hasher = seeded_hasher(0);
        let p = family(true, &[(0, 5)], false, false, "c08 reach");
        assert!(hasher.hash(&to_state(&p)) == 0, "reach witness");
    }
}
